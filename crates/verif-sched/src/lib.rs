//! E3 — "baton" scheduler over real OS threads.
//!
//! The library is named `shuttle` and exposes exactly the surface that salsa's `sync.rs` shim
//! (feature `shuttle`) and the simulation harness use. Every managed thread is a real OS thread,
//! exactly one of them holds the baton; at each intercepted operation the running thread asks the
//! scheduler who runs next. What is real is the thread (so `std::thread::panicking()` is per
//! thread and unwinding works as in production); what is never real is the choice of who runs.
//!
//! One integer (the seed) decides every choice; every decision among more than one runnable
//! thread is recorded, and a recorded list replays the execution exactly.

use std::cell::{Cell, UnsafeCell};
use std::sync::{Arc as StdArc, Condvar as StdCondvar, Mutex as StdMutex};

pub mod rt {
    use super::*;

    #[derive(Clone, Copy, PartialEq, Eq, Debug)]
    pub enum St {
        Runnable,
        Blocked,
        Finished,
    }

    #[derive(Clone, Copy, PartialEq, Eq, Debug)]
    pub enum Strategy {
        /// uniformly random among runnable threads, with a bias to let the current thread continue
        Random { stay_pct: u32 },
        /// PCT: random distinct priorities, `depth` priority change points at random steps
        Pct { depth: u32, horizon: u64 },
        /// PCT whose change points are placed on mutex acquisitions only (far fewer candidate
        /// points than all atomics, and the places where preemption matters most)
        PctLocks { depth: u32, horizon: u64 },
        RoundRobin,
    }

    pub struct TaskInfo {
        pub st: St,
        pub cv: StdArc<StdCondvar>,
        pub joiners: Vec<usize>,
        pub prio: u64,
        pub what: &'static str,
    }

    pub struct State {
        pub active: bool,
        pub tasks: Vec<TaskInfo>,
        pub current: usize,
        pub rng: u64,
        pub strategy: Strategy,
        pub change_points: Vec<u64>,
        pub choices: Vec<u16>,
        pub replay: Option<Vec<u16>>,
        pub replay_pos: usize,
        pub steps: u64,
        pub lock_steps: u64,
        pub phase_steps: u64,
        pub at_lock: bool,
        pub max_steps: u64,
        pub switches: u64,
        pub failure: Option<String>,
        pub os_threads: Vec<std::thread::JoinHandle<()>>,
        pub spurious_pct: u32,
        pub spurious_fired: u64,
        pub blocked_events: u64,
        pub rr_next: usize,
    }

    pub struct Global {
        pub m: StdMutex<State>,
        pub ctl: StdCondvar,
    }

    pub static G: Global = Global {
        m: StdMutex::new(State {
            active: false,
            tasks: Vec::new(),
            current: 0,
            rng: 0,
            strategy: Strategy::Random { stay_pct: 0 },
            change_points: Vec::new(),
            choices: Vec::new(),
            replay: None,
            replay_pos: 0,
            steps: 0,
            lock_steps: 0,
            phase_steps: 0,
            at_lock: false,
            max_steps: 0,
            switches: 0,
            failure: None,
            os_threads: Vec::new(),
            spurious_pct: 0,
            spurious_fired: 0,
            blocked_events: 0,
            rr_next: 0,
        }),
        ctl: StdCondvar::new(),
    };

    thread_local! { pub static ME: Cell<Option<usize>> = const { Cell::new(None) }; }

    pub fn me() -> Option<usize> {
        ME.with(|m| m.get())
    }

    fn lock() -> std::sync::MutexGuard<'static, State> {
        G.m.lock().unwrap_or_else(|e| e.into_inner())
    }

    fn next_rand(s: &mut State) -> u64 {
        s.rng = s.rng.wrapping_add(0x9E3779B97F4A7C15);
        let mut z = s.rng;
        z = (z ^ (z >> 30)).wrapping_mul(0xBF58476D1CE4E5B9);
        z = (z ^ (z >> 27)).wrapping_mul(0x94D049BB133111EB);
        z ^ (z >> 31)
    }

    /// A recorded choice among `n` alternatives that is not a scheduling decision (which waiter
    /// `notify_one` wakes, whether a wait returns spuriously, workload draws).
    pub fn choose(n: usize) -> usize {
        let mut g = lock();
        choose_locked(&mut g, n)
    }

    fn choose_locked(s: &mut State, n: usize) -> usize {
        if n <= 1 {
            return 0;
        }
        let c = if let Some(r) = &s.replay {
            let c = r.get(s.replay_pos).copied().unwrap_or(0) as usize;
            s.replay_pos += 1;
            if c >= n {
                if s.failure.is_none() {
                    s.failure = Some(format!("replay-divergence: recorded choice {c} out of range {n} at position {}", s.replay_pos - 1));
                }
                0
            } else {
                c
            }
        } else {
            (next_rand(s) % n as u64) as usize
        };
        s.choices.push(c as u16);
        c
    }

    /// Pick the next thread to run among the runnable ones. Every decision with more than one
    /// candidate is recorded (as the position in the sorted runnable list).
    fn pick(s: &mut State, me: Option<usize>) -> Option<usize> {
        let runnable: Vec<usize> = s.tasks.iter().enumerate().filter(|(_, t)| t.st == St::Runnable).map(|(i, _)| i).collect();
        if runnable.is_empty() {
            return None;
        }
        if runnable.len() == 1 {
            return Some(runnable[0]);
        }
        if s.replay.is_some() {
            let c = choose_locked(s, runnable.len());
            return Some(runnable[c]);
        }
        let idx = match s.strategy {
            Strategy::Random { stay_pct } => {
                let stay = me.and_then(|m| runnable.iter().position(|x| *x == m));
                match stay {
                    Some(p) if (next_rand(s) % 100) < stay_pct as u64 => p,
                    _ => (next_rand(s) % runnable.len() as u64) as usize,
                }
            }
            Strategy::Pct { .. } | Strategy::PctLocks { .. } => {
                let hit = match s.strategy {
                    Strategy::PctLocks { .. } => s.at_lock && s.change_points.contains(&s.lock_steps),
                    _ => s.change_points.contains(&s.phase_steps),
                };
                if hit {
                    // lower the priority of the running thread below everything else
                    if let Some(m) = me {
                        let low = s.tasks.iter().map(|t| t.prio).min().unwrap_or(1);
                        s.tasks[m].prio = low.saturating_sub(1);
                    }
                }
                let mut best = 0;
                for (i, t) in runnable.iter().enumerate() {
                    if s.tasks[*t].prio > s.tasks[runnable[best]].prio {
                        best = i;
                    }
                }
                best
            }
            Strategy::RoundRobin => {
                s.rr_next += 1;
                s.rr_next % runnable.len()
            }
        };
        s.choices.push(idx as u16);
        Some(runnable[idx])
    }

    fn fail(s: &mut State, why: String) {
        if s.failure.is_none() {
            s.failure = Some(why);
        }
        G.ctl.notify_all();
    }

    /// Hand the baton to `next` and wait until it comes back to `me`.
    fn switch_to(mut g: std::sync::MutexGuard<'static, State>, me: usize, next: usize) {
        if next != me {
            g.switches += 1;
            g.current = next;
            let cv = g.tasks[next].cv.clone();
            cv.notify_one();
            let mycv = g.tasks[me].cv.clone();
            while g.current != me {
                g = mycv.wait(g).unwrap_or_else(|e| e.into_inner());
            }
        }
    }

    fn park_forever(mut g: std::sync::MutexGuard<'static, State>, me: usize) -> ! {
        let mycv = g.tasks[me].cv.clone();
        loop {
            g = mycv.wait(g).unwrap_or_else(|e| e.into_inner());
        }
    }

    /// A scheduling point: the current thread stays runnable, the scheduler decides who continues.
    pub fn yield_point() {
        yield_point_kind(false)
    }

    /// Start a new phase (e.g. a round of reader threads): PCT change points are drawn afresh
    /// relative to the phase start, so that they fall into the concurrent part of the run and not
    /// into the single-threaded set-up that precedes it.
    pub fn new_phase() {
        let mut g = lock();
        if !g.active {
            return;
        }
        g.phase_steps = 0;
        g.lock_steps = 0;
        if let Strategy::Pct { depth, horizon } | Strategy::PctLocks { depth, horizon } = g.strategy {
            let mut cps = vec![];
            for _ in 0..depth {
                let x = next_rand(&mut g);
                cps.push(1 + x % horizon.max(1));
            }
            g.change_points = cps;
        }
        if let Ok(v) = std::env::var("VERIF_DEBUG_CP") {
            // diagnosis only: fixed change point (lock index) in every phase
            g.change_points = vec![v.parse().unwrap_or(1)];
        }
    }

    /// scheduling point right before a mutex acquisition
    pub fn yield_point_lock() {
        yield_point_kind(true)
    }

    fn yield_point_kind(is_lock: bool) {
        let Some(me) = me() else { return };
        let mut g = lock();
        if !g.active || g.current != me {
            return;
        }
        g.steps += 1;
        g.phase_steps += 1;
        g.at_lock = is_lock;
        if is_lock {
            g.lock_steps += 1;
        }
        if g.steps > g.max_steps {
            let ms = g.max_steps;
            let d = describe(&g);
            fail(&mut g, format!("livelock: step bound {ms} exceeded [{d}]"));
            park_forever(g, me);
        }
        let next = pick(&mut g, Some(me)).expect("current task is runnable");
        switch_to(g, me, next);
    }

    fn describe(s: &State) -> String {
        s.tasks.iter().enumerate().map(|(i, t)| format!("{i}:{:?}:{}", t.st, t.what)).collect::<Vec<_>>().join(",")
    }

    /// Block the current thread until someone calls `unblock(me)` and the scheduler picks it.
    pub fn block(what: &'static str) {
        let me = me().expect("block outside a managed thread");
        let mut g = lock();
        g.tasks[me].st = St::Blocked;
        g.tasks[me].what = what;
        g.blocked_events += 1;
        match pick(&mut g, None) {
            Some(next) => switch_to(g, me, next),
            None => {
                let d = describe(&g);
                fail(&mut g, format!("deadlock: no runnable thread [{d}]"));
                park_forever(g, me);
            }
        }
    }

    pub fn unblock(t: usize) {
        let mut g = lock();
        if g.tasks[t].st == St::Blocked {
            g.tasks[t].st = St::Runnable;
            g.tasks[t].what = "";
        }
    }

    pub fn spurious_wakeup() -> bool {
        let mut g = lock();
        if !g.active || g.spurious_pct == 0 {
            return false;
        }
        let p = g.spurious_pct as usize;
        // recorded as a 0..100 draw so that replay reproduces it
        let hit = choose_locked(&mut g, 100) < p;
        if hit {
            g.spurious_fired += 1;
        }
        hit
    }

    // OS threads are pooled and reused across managed tasks and across executions: creating and
    // destroying several threads per simulated run costs more (and contends more across worker
    // processes) than everything else the run does.
    type Job = (usize, Box<dyn FnOnce() + Send + 'static>);
    struct PoolWorker {
        job: StdMutex<Option<Job>>,
        cv: StdCondvar,
    }
    static IDLE: StdMutex<Vec<StdArc<PoolWorker>>> = StdMutex::new(Vec::new());

    fn run_job(id: usize, f: Box<dyn FnOnce() + Send + 'static>) {
        ME.with(|m| m.set(Some(id)));
        {
            let mut g = lock();
            let cv = g.tasks[id].cv.clone();
            while g.current != id {
                g = cv.wait(g).unwrap_or_else(|e| e.into_inner());
            }
        }
        f();
        let mut g = lock();
        g.tasks[id].st = St::Finished;
        let js = std::mem::take(&mut g.tasks[id].joiners);
        for j in js {
            if g.tasks[j].st == St::Blocked {
                g.tasks[j].st = St::Runnable;
            }
        }
        match pick(&mut g, None) {
            Some(next) => {
                g.switches += 1;
                g.current = next;
                let cv = g.tasks[next].cv.clone();
                cv.notify_one();
            }
            None => {
                if g.tasks.iter().all(|t| t.st == St::Finished) {
                    g.current = usize::MAX;
                    G.ctl.notify_all();
                } else {
                    let d = describe(&g);
                    fail(&mut g, format!("deadlock: last runnable thread finished [{d}]"));
                }
            }
        }
        drop(g);
        ME.with(|m| m.set(None));
    }

    pub fn spawn_task(f: Box<dyn FnOnce() + Send + 'static>) -> usize {
        let mut g = lock();
        let id = g.tasks.len();
        let prio = 1_000_000 + (next_rand(&mut g) % 1_000_000);
        g.tasks.push(TaskInfo { st: St::Runnable, cv: StdArc::new(StdCondvar::new()), joiners: vec![], prio, what: "" });
        drop(g);
        let idle = IDLE.lock().unwrap_or_else(|e| e.into_inner()).pop();
        match idle {
            Some(w) => {
                *w.job.lock().unwrap_or_else(|e| e.into_inner()) = Some((id, f));
                w.cv.notify_one();
            }
            None => {
                let w = StdArc::new(PoolWorker { job: StdMutex::new(Some((id, f))), cv: StdCondvar::new() });
                std::thread::Builder::new()
                    .stack_size(16 << 20)
                    .spawn(move || loop {
                        let job = {
                            let mut j = w.job.lock().unwrap_or_else(|e| e.into_inner());
                            loop {
                                if let Some(job) = j.take() {
                                    break job;
                                }
                                j = w.cv.wait(j).unwrap_or_else(|e| e.into_inner());
                            }
                        };
                        run_job(job.0, job.1);
                        IDLE.lock().unwrap_or_else(|e| e.into_inner()).push(w.clone());
                    })
                    .expect("spawn OS thread");
            }
        }
        id
    }

    pub fn is_finished(t: usize) -> bool {
        lock().tasks[t].st == St::Finished
    }
    pub fn add_joiner(t: usize, me: usize) {
        lock().tasks[t].joiners.push(me)
    }

    #[derive(Clone, Debug)]
    pub struct Config {
        pub seed: u64,
        pub strategy: Strategy,
        pub max_steps: u64,
        pub spurious_pct: u32,
        pub replay: Option<Vec<u16>>,
    }

    #[derive(Clone, Debug)]
    pub struct Outcome {
        /// deadlock / livelock / replay-divergence
        pub failure: Option<String>,
        pub choices: Vec<u16>,
        pub steps: u64,
        pub switches: u64,
        pub spurious_fired: u64,
        pub blocked_events: u64,
        pub threads: usize,
    }

    /// Run `f` as the main managed thread under the scheduler; returns when every managed thread
    /// has finished or a scheduling failure (deadlock, step bound) was detected.
    pub fn check(cfg: Config, f: impl FnOnce() + Send + 'static) -> Outcome {
        {
            let mut g = lock();
            assert!(!g.active, "one execution at a time per process");
            let mut cps = vec![];
            let mut rng = cfg.seed ^ 0xA5A5_5A5A_1234_5678;
            if let Strategy::Pct { depth, horizon } | Strategy::PctLocks { depth, horizon } = cfg.strategy {
                for _ in 0..depth {
                    rng = rng.wrapping_mul(6364136223846793005).wrapping_add(1442695040888963407);
                    cps.push(1 + (rng >> 33) % horizon.max(1));
                }
            }
            *g = State {
                active: true,
                tasks: vec![],
                current: usize::MAX - 1,
                rng: cfg.seed,
                strategy: cfg.strategy,
                change_points: cps,
                choices: vec![],
                replay: cfg.replay.clone(),
                replay_pos: 0,
                steps: 0,
                lock_steps: 0,
                phase_steps: 0,
                at_lock: false,
                max_steps: cfg.max_steps,
                switches: 0,
                failure: None,
                os_threads: vec![],
                spurious_pct: cfg.spurious_pct,
                spurious_fired: 0,
                blocked_events: 0,
                rr_next: 0,
            };
        }
        let t0 = spawn_task(Box::new(f));
        let mut g = lock();
        g.current = t0;
        let cv = g.tasks[t0].cv.clone();
        cv.notify_one();
        while g.current != usize::MAX && g.failure.is_none() {
            g = G.ctl.wait(g).unwrap_or_else(|e| e.into_inner());
        }
        let out = Outcome {
            failure: g.failure.clone(),
            choices: std::mem::take(&mut g.choices),
            steps: g.steps,
            switches: g.switches,
            spurious_fired: g.spurious_fired,
            blocked_events: g.blocked_events,
            threads: g.tasks.len(),
        };
        g.active = false;
        drop(g);
        // after a failure the parked threads are leaked (never returned to the pool); the worker
        // process stops after reporting
        out
    }
}

pub mod sync {
    use super::*;
    pub use std::sync::{Arc, LockResult, Weak};

    pub struct Mutex<T: ?Sized> {
        locked: Cell<bool>,
        waiters: UnsafeCell<Vec<usize>>,
        data: UnsafeCell<T>,
    }
    // SAFETY: only the baton holder touches `locked` / `waiters`; `data` is guarded by `locked`.
    unsafe impl<T: ?Sized + Send> Send for Mutex<T> {}
    unsafe impl<T: ?Sized + Send> Sync for Mutex<T> {}

    pub struct MutexGuard<'a, T: ?Sized> {
        m: &'a Mutex<T>,
    }

    impl<T> Mutex<T> {
        pub const fn new(v: T) -> Self {
            Mutex { locked: Cell::new(false), waiters: UnsafeCell::new(Vec::new()), data: UnsafeCell::new(v) }
        }
        pub fn into_inner(self) -> LockResult<T> {
            Ok(self.data.into_inner())
        }
    }
    impl<T: Default> Default for Mutex<T> {
        fn default() -> Self {
            Self::new(T::default())
        }
    }
    impl<T: ?Sized> std::fmt::Debug for Mutex<T> {
        fn fmt(&self, f: &mut std::fmt::Formatter<'_>) -> std::fmt::Result {
            f.write_str("Mutex")
        }
    }
    impl<T: ?Sized> Mutex<T> {
        pub fn lock(&self) -> LockResult<MutexGuard<'_, T>> {
            rt::yield_point_lock();
            loop {
                if !self.locked.get() {
                    self.locked.set(true);
                    return Ok(MutexGuard { m: self });
                }
                let me = rt::me().expect("contended managed mutex outside a managed thread");
                // SAFETY: baton holder only
                unsafe { (*self.waiters.get()).push(me) };
                rt::block("mutex");
            }
        }
        pub fn try_lock(&self) -> Result<MutexGuard<'_, T>, ()> {
            rt::yield_point();
            if !self.locked.get() {
                self.locked.set(true);
                Ok(MutexGuard { m: self })
            } else {
                Err(())
            }
        }
        pub fn get_mut(&mut self) -> LockResult<&mut T> {
            Ok(self.data.get_mut())
        }
        fn unlock(&self) {
            self.locked.set(false);
            // SAFETY: baton holder only
            for w in unsafe { (*self.waiters.get()).drain(..) } {
                rt::unblock(w);
            }
        }
    }
    impl<T: ?Sized> Drop for MutexGuard<'_, T> {
        fn drop(&mut self) {
            self.m.unlock();
        }
    }
    impl<T: ?Sized> std::ops::Deref for MutexGuard<'_, T> {
        type Target = T;
        fn deref(&self) -> &T {
            // SAFETY: we hold the lock
            unsafe { &*self.m.data.get() }
        }
    }
    impl<T: ?Sized> std::ops::DerefMut for MutexGuard<'_, T> {
        fn deref_mut(&mut self) -> &mut T {
            // SAFETY: we hold the lock
            unsafe { &mut *self.m.data.get() }
        }
    }
    impl<T: ?Sized + std::fmt::Debug> std::fmt::Debug for MutexGuard<'_, T> {
        fn fmt(&self, f: &mut std::fmt::Formatter<'_>) -> std::fmt::Result {
            (**self).fmt(f)
        }
    }

    pub struct Condvar {
        waiters: UnsafeCell<Vec<usize>>,
    }
    // SAFETY: baton holder only
    unsafe impl Send for Condvar {}
    unsafe impl Sync for Condvar {}
    impl Default for Condvar {
        fn default() -> Self {
            Self::new()
        }
    }
    impl std::fmt::Debug for Condvar {
        fn fmt(&self, f: &mut std::fmt::Formatter<'_>) -> std::fmt::Result {
            f.write_str("Condvar")
        }
    }
    impl Condvar {
        pub const fn new() -> Self {
            Condvar { waiters: UnsafeCell::new(Vec::new()) }
        }
        pub fn wait<'a, T>(&self, guard: MutexGuard<'a, T>) -> LockResult<MutexGuard<'a, T>> {
            let m = guard.m;
            let me = rt::me().expect("condvar wait outside a managed thread");
            if rt::spurious_wakeup() {
                // legal for condition variables: return without having been notified
                drop(guard);
                return m.lock();
            }
            // SAFETY: baton holder only
            unsafe { (*self.waiters.get()).push(me) };
            drop(guard);
            rt::block("condvar");
            m.lock()
        }
        pub fn notify_one(&self) {
            rt::yield_point();
            // SAFETY: baton holder only
            let ws = unsafe { &mut *self.waiters.get() };
            if !ws.is_empty() {
                let i = if ws.len() > 1 { rt::choose(ws.len()) } else { 0 };
                let w = ws.remove(i);
                rt::unblock(w);
            }
        }
        pub fn notify_all(&self) {
            rt::yield_point();
            // SAFETY: baton holder only
            for w in unsafe { (*self.waiters.get()).drain(..) } {
                rt::unblock(w);
            }
        }
    }

    pub mod atomic {
        use super::super::rt;
        pub use std::sync::atomic::Ordering;
        macro_rules! atomic_int {
            ($name:ident, $std:ty, $t:ty) => {
                #[derive(Default)]
                pub struct $name($std);
                impl std::fmt::Debug for $name {
                    fn fmt(&self, f: &mut std::fmt::Formatter<'_>) -> std::fmt::Result {
                        self.0.fmt(f)
                    }
                }
                impl From<$t> for $name {
                    fn from(v: $t) -> Self {
                        Self::new(v)
                    }
                }
                impl $name {
                    pub const fn new(v: $t) -> Self {
                        Self(<$std>::new(v))
                    }
                    pub fn load(&self, o: Ordering) -> $t {
                        rt::yield_point();
                        self.0.load(o)
                    }
                    pub fn store(&self, v: $t, o: Ordering) {
                        rt::yield_point();
                        self.0.store(v, o)
                    }
                    pub fn swap(&self, v: $t, o: Ordering) -> $t {
                        rt::yield_point();
                        self.0.swap(v, o)
                    }
                    pub fn compare_exchange(&self, c: $t, n: $t, s: Ordering, f: Ordering) -> Result<$t, $t> {
                        rt::yield_point();
                        self.0.compare_exchange(c, n, s, f)
                    }
                    pub fn compare_exchange_weak(&self, c: $t, n: $t, s: Ordering, f: Ordering) -> Result<$t, $t> {
                        rt::yield_point();
                        self.0.compare_exchange(c, n, s, f)
                    }
                    pub fn fetch_add(&self, v: $t, o: Ordering) -> $t {
                        rt::yield_point();
                        self.0.fetch_add(v, o)
                    }
                    pub fn fetch_sub(&self, v: $t, o: Ordering) -> $t {
                        rt::yield_point();
                        self.0.fetch_sub(v, o)
                    }
                    pub fn fetch_or(&self, v: $t, o: Ordering) -> $t {
                        rt::yield_point();
                        self.0.fetch_or(v, o)
                    }
                    pub fn fetch_and(&self, v: $t, o: Ordering) -> $t {
                        rt::yield_point();
                        self.0.fetch_and(v, o)
                    }
                    pub fn fetch_max(&self, v: $t, o: Ordering) -> $t {
                        rt::yield_point();
                        self.0.fetch_max(v, o)
                    }
                    pub fn get_mut(&mut self) -> &mut $t {
                        self.0.get_mut()
                    }
                    pub fn into_inner(self) -> $t {
                        self.0.into_inner()
                    }
                }
            };
        }
        atomic_int!(AtomicU8, std::sync::atomic::AtomicU8, u8);
        atomic_int!(AtomicU16, std::sync::atomic::AtomicU16, u16);
        atomic_int!(AtomicU32, std::sync::atomic::AtomicU32, u32);
        atomic_int!(AtomicU64, std::sync::atomic::AtomicU64, u64);
        atomic_int!(AtomicUsize, std::sync::atomic::AtomicUsize, usize);
        atomic_int!(AtomicIsize, std::sync::atomic::AtomicIsize, isize);

        #[derive(Default)]
        pub struct AtomicBool(std::sync::atomic::AtomicBool);
        impl std::fmt::Debug for AtomicBool {
            fn fmt(&self, f: &mut std::fmt::Formatter<'_>) -> std::fmt::Result {
                self.0.fmt(f)
            }
        }
        impl From<bool> for AtomicBool {
            fn from(v: bool) -> Self {
                Self::new(v)
            }
        }
        impl AtomicBool {
            pub const fn new(v: bool) -> Self {
                Self(std::sync::atomic::AtomicBool::new(v))
            }
            pub fn load(&self, o: Ordering) -> bool {
                rt::yield_point();
                self.0.load(o)
            }
            pub fn store(&self, v: bool, o: Ordering) {
                rt::yield_point();
                self.0.store(v, o)
            }
            pub fn swap(&self, v: bool, o: Ordering) -> bool {
                rt::yield_point();
                self.0.swap(v, o)
            }
            pub fn compare_exchange(&self, c: bool, n: bool, s: Ordering, f: Ordering) -> Result<bool, bool> {
                rt::yield_point();
                self.0.compare_exchange(c, n, s, f)
            }
            pub fn fetch_or(&self, v: bool, o: Ordering) -> bool {
                rt::yield_point();
                self.0.fetch_or(v, o)
            }
            pub fn fetch_and(&self, v: bool, o: Ordering) -> bool {
                rt::yield_point();
                self.0.fetch_and(v, o)
            }
            pub fn get_mut(&mut self) -> &mut bool {
                self.0.get_mut()
            }
            pub fn into_inner(self) -> bool {
                self.0.into_inner()
            }
        }

        pub struct AtomicPtr<T>(std::sync::atomic::AtomicPtr<T>);
        impl<T> Default for AtomicPtr<T> {
            fn default() -> Self {
                Self::new(std::ptr::null_mut())
            }
        }
        impl<T> std::fmt::Debug for AtomicPtr<T> {
            fn fmt(&self, f: &mut std::fmt::Formatter<'_>) -> std::fmt::Result {
                self.0.fmt(f)
            }
        }
        impl<T> AtomicPtr<T> {
            pub const fn new(p: *mut T) -> Self {
                Self(std::sync::atomic::AtomicPtr::new(p))
            }
            pub fn load(&self, o: Ordering) -> *mut T {
                rt::yield_point();
                self.0.load(o)
            }
            pub fn store(&self, p: *mut T, o: Ordering) {
                rt::yield_point();
                self.0.store(p, o)
            }
            pub fn swap(&self, p: *mut T, o: Ordering) -> *mut T {
                rt::yield_point();
                self.0.swap(p, o)
            }
            pub fn compare_exchange(&self, c: *mut T, n: *mut T, s: Ordering, f: Ordering) -> Result<*mut T, *mut T> {
                rt::yield_point();
                self.0.compare_exchange(c, n, s, f)
            }
            pub fn get_mut(&mut self) -> &mut *mut T {
                self.0.get_mut()
            }
            pub fn into_inner(self) -> *mut T {
                self.0.into_inner()
            }
        }
    }
}

pub mod thread {
    use super::*;
    pub use std::thread::{panicking, Result};

    #[derive(Clone, Copy, Debug, PartialEq, Eq, Hash, PartialOrd, Ord)]
    pub struct ThreadId(pub usize);

    #[derive(Clone, Debug)]
    pub struct Thread {
        id: ThreadId,
    }
    impl Thread {
        pub fn id(&self) -> ThreadId {
            self.id
        }
    }
    pub fn current() -> Thread {
        Thread { id: ThreadId(rt::me().unwrap_or(usize::MAX)) }
    }

    pub struct JoinHandle<T> {
        task: usize,
        slot: StdArc<StdMutex<Option<Result<T>>>>,
    }

    pub fn spawn<F, T>(f: F) -> JoinHandle<T>
    where
        F: FnOnce() -> T + Send + 'static,
        T: Send + 'static,
    {
        let slot = StdArc::new(StdMutex::new(None));
        let s2 = slot.clone();
        let task = rt::spawn_task(Box::new(move || {
            let r = std::panic::catch_unwind(std::panic::AssertUnwindSafe(f));
            *s2.lock().unwrap_or_else(|e| e.into_inner()) = Some(r);
        }));
        rt::yield_point();
        JoinHandle { task, slot }
    }

    impl<T> JoinHandle<T> {
        pub fn join(self) -> Result<T> {
            rt::yield_point();
            while !rt::is_finished(self.task) {
                let me = rt::me().expect("join outside a managed thread");
                rt::add_joiner(self.task, me);
                rt::block("join");
            }
            self.slot.lock().unwrap_or_else(|e| e.into_inner()).take().expect("joined thread stored its result")
        }
        pub fn is_finished(&self) -> bool {
            rt::is_finished(self.task)
        }
    }

    pub fn sleep(_d: std::time::Duration) {
        rt::yield_point();
    }
    pub fn yield_now() {
        rt::yield_point();
    }
}

pub use std::thread_local;
