#![cfg(feature = "inventory")]
use salsa::{Database, Setter};

#[salsa::input]
struct In {
    #[returns(copy)]
    x: u32,
}

fn fb2(_db: &dyn Database, _id: salsa::Id, _c: In) -> u32 {
    102
}
fn fb4(_db: &dyn Database, _id: salsa::Id, _c: In) -> u32 {
    104
}
fn fb5(_db: &dyn Database, _id: salsa::Id, _c: In) -> u32 {
    105
}

#[salsa::tracked(returns(copy), cycle_result = fb2)]
fn n2(db: &dyn Database, c: In) -> u32 {
    let _ = n4(db, c);
    0
}

#[salsa::tracked(returns(copy), cycle_result = fb4)]
fn n4(db: &dyn Database, c: In) -> u32 {
    let _ = n4(db, c);
    if c.x(db) >= 3 { n2(db, c) } else { 0 }
}

#[salsa::tracked(returns(copy), cycle_result = fb5)]
fn n5(db: &dyn Database, c: In) -> u32 {
    n2(db, c)
}

#[test]
fn dependent_of_a_fallback_member_is_invalidated_when_the_cycle_disappears() {
    let mut db = salsa::DatabaseImpl::new();
    let c = In::new(&db, 14);
    // n2 -> n4 -> n2 is a cycle: n2 yields its fallback
    assert_eq!(n5(&db, c), 102);
    // the write removes the edge n4 -> n2: n2 is no longer on a cycle and yields its body value
    c.set_x(&mut db).to(0);
    let fresh = {
        let db2 = salsa::DatabaseImpl::new();
        let c2 = In::new(&db2, 0);
        n5(&db2, c2)
    };
    assert_eq!(fresh, 0);
    assert_eq!(n5(&db, c), fresh);
}
