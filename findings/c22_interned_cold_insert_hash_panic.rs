#![cfg(feature = "inventory")]
//! C22 finding (repaired by the second "fix:" commit in /repo): a panic in the user's `Hash`
//! while a *newly allocated* interned value is inserted (the key map grows and re-hashes the
//! existing values) left the new value on the shard's LRU list without a key-map entry. When
//! that slot later became the reuse candidate, an unrelated request panicked with
//! "interned value in LRU so must be in key_map".
//! With the fix this test passes; without it one of the later requests panics.
use salsa::{Database, Setter};
use std::hash::{Hash, Hasher};
use std::sync::atomic::{AtomicI64, Ordering};

/// the n-th call of `Hash::hash` from now panics (<= 0: never)
static PANIC_AT_HASH: AtomicI64 = AtomicI64::new(0);

#[derive(Clone, Copy, Debug, PartialEq, Eq, salsa::SalsaValue)]
struct Val(u32);
impl Hash for Val {
    fn hash<H: Hasher>(&self, state: &mut H) {
        if PANIC_AT_HASH.fetch_sub(1, Ordering::SeqCst) == 1 {
            panic!("user Hash panics once");
        }
        // constant: every value lives in the same shard
        state.write_u8(0);
    }
}

#[salsa::input]
struct In {
    #[returns(copy)]
    x: u32,
}

#[salsa::interned(revisions = 1)]
struct Name<'db> {
    #[returns(copy)]
    v: Val,
}

#[salsa::tracked(returns(copy))]
fn name_of(db: &dyn Database, i: In) -> u32 {
    // the input read makes the query (and so the interned value) LOW durability = reusable
    let n = Name::new(db, Val(i.x(db)));
    n.v(db).0
}

#[test]
fn panic_in_hash_during_cold_insert_does_not_corrupt_the_shard() {
    let mut db = salsa::DatabaseImpl::new();
    let ins: Vec<In> = (0..4).map(|k| In::new(&db, k)).collect();
    for k in 0..3 {
        assert_eq!(name_of(&db, ins[k]), k as u32);
    }
    // the 4th value makes the key map grow: hash call 1 = the new key, call 2 = re-hashing
    PANIC_AT_HASH.store(2, Ordering::SeqCst);
    let r = std::panic::catch_unwind(std::panic::AssertUnwindSafe(|| name_of(&db, ins[3])));
    assert!(r.is_err(), "the user panic reaches the caller");
    PANIC_AT_HASH.store(0, Ordering::SeqCst);
    // the panic no longer occurs: every request must now behave like on a fresh database
    assert_eq!(name_of(&db, ins[3]), 3);
    let mut next = 100;
    for _rev in 0..12 {
        for k in 0..4 {
            next += 1;
            ins[k].set_x(&mut db).to(next);
            assert_eq!(name_of(&db, ins[k]), next);
        }
    }
}
