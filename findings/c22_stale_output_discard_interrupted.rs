#![cfg(feature = "inventory")]
//! C22 known finding (recorded, not repaired): a panic in the event callback while the stale
//! tracked structs of a re-executed query are being deleted leaves the old memo in place with
//! already-deleted outputs; the retry then panics with "cannot delete read-locked id".
//! This test FAILS on salsa 0.28.2 (it documents the expected behaviour).
use salsa::{Database, Setter, Storage};
use std::sync::atomic::{AtomicU32, Ordering};
use std::sync::Arc;

#[salsa::db]
#[derive(Clone)]
struct Db { storage: Storage<Self> }
#[salsa::db]
impl salsa::Database for Db {}

#[salsa::input]
struct In { #[returns(copy)] x: u32 }

#[salsa::tracked]
struct Ts<'db> { #[returns(copy)] ident: u32 }

#[salsa::tracked(returns(copy))]
fn make(db: &dyn Database, i: In) -> u32 {
    // two structs whose identity depends on the input: a write makes both stale
    let a = Ts::new(db, i.x(db));
    let b = Ts::new(db, i.x(db) + 100);
    a.ident(db) + b.ident(db)
}

#[test]
fn event_panic_during_stale_output_deletion() {
    let discards = Arc::new(AtomicU32::new(0));
    let arm = Arc::new(AtomicU32::new(0));
    let (d2, a2) = (discards.clone(), arm.clone());
    let mut db = Db {
        storage: Storage::new(Some(Box::new(move |e: salsa::Event| {
            if let salsa::EventKind::DidDiscard { .. } = e.kind {
                let n = d2.fetch_add(1, Ordering::SeqCst);
                // panic at the second DidDiscard after arming (first struct is already deleted)
                if a2.load(Ordering::SeqCst) == 1 && n == 1 {
                    a2.store(0, Ordering::SeqCst);
                    panic!("event callback panics once");
                }
            }
        }))),
    };
    let i = In::new(&db, 1);
    assert_eq!(make(&db, i), 102);
    i.set_x(&mut db).to(2);
    discards.store(0, Ordering::SeqCst);
    arm.store(1, Ordering::SeqCst);
    let r = std::panic::catch_unwind(std::panic::AssertUnwindSafe(|| make(&db, i)));
    assert!(r.is_err(), "the user panic reaches the caller");
    // the panic no longer occurs: the same request must now succeed with the fresh value
    assert_eq!(make(&db, i), 104);
}
