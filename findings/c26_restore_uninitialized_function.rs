#![cfg(all(feature = "persistence", feature = "inventory"))]
//! C26 known finding: after deserializing into a fresh database, verifying a restored memo whose
//! dependency is a persisted tracked function that has not been called yet in that database
//! panics with "tracked function ingredients cannot be accessed before calling `init`".
//! This test FAILS on salsa 0.28.2 (it documents the expected behaviour).
use salsa::{Database, Setter};

#[salsa::input(persist)]
struct In { #[returns(copy)] x: u32, #[returns(copy)] y: u32 }

#[salsa::tracked(returns(copy), persist)]
fn inner(db: &dyn Database, i: In) -> u32 { i.x(db) + 1 }

#[salsa::tracked(returns(copy), persist)]
fn outer(db: &dyn Database, i: In) -> u32 { inner(db, i) * 2 + i.y(db) }

#[test]
fn restored_outer_can_be_verified_before_inner_was_called() {
    let mut db = salsa::DatabaseImpl::new();
    let i = In::new(&db, 1, 0);
    assert_eq!(outer(&db, i), 4);
    // make outer's memo stale (y changes), so that the restored memo must be deep-verified
    i.set_y(&mut db).to(5);
    let json = serde_json::to_string(&<dyn salsa::Database>::as_serialize(&mut db)).unwrap();

    let mut fresh = salsa::DatabaseImpl::new();
    <dyn salsa::Database>::deserialize(&mut fresh, &mut serde_json::Deserializer::from_str(&json)).unwrap();
    // `inner` has not been called on `fresh` yet; verifying outer's first edge reaches it
    assert_eq!(outer(&fresh, i), 9);
}
