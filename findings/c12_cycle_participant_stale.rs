#![cfg(feature = "inventory")]
//! C12 finding (recorded, not repaired): a member of a fixpoint cycle that was requested
//! directly after the cycle completed (and thereby finalized) is *validated* in a later
//! revision although an input read by another member of the cycle changed.
//!
//! `n3` returns `n2`, `n2` returns `n1`, `n1` returns the input `a` (and calls `n2`, closing the
//! cycle). The dependency of `n3` on `a` only exists through the back edge `n3 -> n2` to a cycle
//! head that is still executing; when `n3` completes it copies the (then still empty) dependency
//! list of `n2`'s provisional memo. The fixpoint iteration stops as soon as the *values*
//! converge, so `n3`'s memo ends up recording `n0` as its only dependency. On the unchanged tree
//! the last assertion fails (`n3` is 0, a fresh database returns 2).
use salsa::{Database, Setter};

#[salsa::input]
struct In {
    #[returns(copy)]
    x: u32,
}

fn initial(_db: &dyn Database, _id: salsa::Id, _a: In, _b: In) -> u32 {
    0
}

#[salsa::tracked(returns(copy))]
fn n0(db: &dyn Database, _a: In, b: In) -> u32 {
    b.x(db) & 0
}

#[salsa::tracked(returns(copy), cycle_initial = initial)]
fn n1(db: &dyn Database, a: In, b: In) -> u32 {
    let r = a.x(db);
    let _ = n2(db, a, b);
    r
}

#[salsa::tracked(returns(copy), cycle_initial = initial)]
fn n2(db: &dyn Database, a: In, b: In) -> u32 {
    let _ = n3(db, a, b);
    n1(db, a, b)
}

#[salsa::tracked(returns(copy), cycle_initial = initial)]
fn n3(db: &dyn Database, a: In, b: In) -> u32 {
    let _ = n0(db, a, b);
    n2(db, a, b)
}

#[salsa::tracked(returns(copy))]
fn n4(db: &dyn Database, a: In, b: In) -> u32 {
    n1(db, a, b)
}

#[test]
fn finalized_cycle_member_is_invalidated_when_another_members_input_changes() {
    let mut db = salsa::DatabaseImpl::new();
    let a = In::new(&db, 0);
    let b = In::new(&db, 3);
    // revision 1: the cycle is entered through n1 and converges; n3 is then requested directly
    assert_eq!(n4(&db, a, b), 0);
    assert_eq!(n3(&db, a, b), 0);
    // revision 2: the input read by n1 changes
    a.set_x(&mut db).to(2);
    assert_eq!(n1(&db, a, b), 2);
    assert_eq!(n2(&db, a, b), 2);
    // n3 = n2 = n1 = a
    let fresh = {
        let db2 = salsa::DatabaseImpl::new();
        let a2 = In::new(&db2, 2);
        let b2 = In::new(&db2, 3);
        n3(&db2, a2, b2)
    };
    assert_eq!(fresh, 2);
    assert_eq!(n3(&db, a, b), fresh, "n3 was validated although n1's input changed");
}
