#![cfg(feature = "inventory")]
//! C22 finding (repaired by the "fix:" commit in /repo): a panic in the `PartialEq` of a tracked
//! field while its tracked struct is being re-created left the struct write-locked forever.
//! With the fix this test passes; without it the last request panics with
//! "two concurrent writers to Id(..), should not be possible".
use salsa::{Database, Setter};
use std::sync::atomic::{AtomicBool, Ordering};

static PANIC_IN_EQ: AtomicBool = AtomicBool::new(false);

#[derive(Clone, Copy, Debug)]
struct Val(u32);
impl PartialEq for Val {
    fn eq(&self, o: &Val) -> bool {
        if PANIC_IN_EQ.swap(false, Ordering::SeqCst) {
            panic!("user PartialEq panics once");
        }
        self.0 == o.0
    }
}
impl Eq for Val {}

#[salsa::input]
struct In { #[returns(copy)] x: u32 }

#[salsa::tracked]
struct Ts<'db> { #[returns(copy)] ident: u32, #[tracked] #[returns(copy)] f: Val }

#[salsa::tracked(returns(copy))]
fn make(db: &dyn Database, i: In) -> u32 {
    let t = Ts::new(db, 0, Val(i.x(db)));
    t.f(db).0
}

#[test]
fn panic_in_tracked_field_eq_does_not_wedge_the_struct() {
    let mut db = salsa::DatabaseImpl::new();
    let i = In::new(&db, 1);
    assert_eq!(make(&db, i), 1);
    i.set_x(&mut db).to(2);
    PANIC_IN_EQ.store(true, Ordering::SeqCst);
    let r = std::panic::catch_unwind(std::panic::AssertUnwindSafe(|| make(&db, i)));
    assert!(r.is_err(), "the user panic reaches the caller");
    // the panic no longer occurs: the same request must now succeed
    assert_eq!(make(&db, i), 2);
    i.set_x(&mut db).to(3);
    assert_eq!(make(&db, i), 3);
}
