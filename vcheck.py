#!/usr/bin/env python3
"""Driver: build engines from /repo's working tree, fan out seeded simulation workers,
aggregate evidence, confirm violations by replay in a fresh process, print
VIOLATION / KNOWN-FINDING lines. Exit 0 = property held on everything explored,
1 = violation, 2 = harness error (build failure, replay divergence, determinism mismatch).

usage: vcheck.py <Cxx> [--tier quick|thorough]      run one property's check
       vcheck.py --setup                            build every engine (offline)
       vcheck.py --replay <file>                    replay one file
"""
import array, json, os, shutil, subprocess, sys, time

ROOT = os.path.dirname(os.path.abspath(__file__))
TARGET = os.path.join(ROOT, "target")
NPROC = int(os.environ.get("VERIF_WORKERS", "16"))

ENV = dict(os.environ, CARGO_NET_OFFLINE="true")

# engine -> (manifest dir, cargo features)
ENGINES = {
    "e1": ("engines/e1", []),
    "e1p": ("engines/e1", ["persistence"]),
}

# property -> configuration
#   engine, runs per worker (quick, thorough)
PROPS = {
    "C01": dict(engine="e1", quick=12000, thorough=250000, level="exploration",
                text="Seeded search over generated acyclic programs (all non-cycle function kinds, tracked structs, interning with reclamation, untracked reads, no_eq, dynamic calls) and write/query histories; every returned value and field is compared with an independent from-scratch reference interpreter and, on a sample, with a fresh salsa database.",
                note="Trusted: reference interpreter + shared op stepping. Bounds: <=18 nodes, <=70 steps, values mod <=8."),
    "C02": dict(engine="e1", quick=10000, thorough=200000, level="exploration",
                text="Seeded histories with durability churn (every write draws LOW/MEDIUM/HIGH/NEVER_CHANGE or keeps; synthetic writes of every durability); values = reference; writes to frozen fields and NEVER_CHANGE synthetic writes must panic and leave results unchanged.",
                note="Trusted: reference interpreter. Durability shortcut reach is inferred from validation events, not instrumented."),
    "C03": dict(engine="e1", quick=10000, thorough=200000, level="exploration",
                text="Every body execution observed (WillExecute + body probe) is checked against a justification model fed by read probes: an execution of a key with a live, tracked memo must be explained by a write to a field it read, a callee whose value/durability changed, a recreated tracked field, a reclaimed interned value, eviction or untracked state. One-sided: unknown durability counts as justified.",
                note="Model of durability is exact for input reads and calls, conservative (always justified) through interned values, LRU functions and multi-argument key interning."),
    "C04": dict(engine="e1", quick=10000, thorough=200000, level="exploration",
                text="Programs with untracked reads of harness-controlled cells; after each cell change + synthetic write of any durability: values = reference, every untracked function reachable from a request executed in that revision, and dependents of an untracked function that returned an equal value are not re-executed (justification model).",
                note="Acyclic classes only are alarm-free; the cyclic class carries the known finding (untracked read by a cycle participant)."),
    "C05": dict(engine="e1", quick=8000, thorough=150000, level="exploration",
                text="Programs with q_lru sub-nodes under request/write/set_lru_capacity/trigger_lru_eviction histories; transparency: values = reference; an exact list model of record-use/pop-front predicts which values are evicted: a predicted-evicted value must be recomputed when (and only when) it is next requested, a predicted-retained one is re-executed only for a changed dependency, and after every revision start/trigger the number of cached q_lru values (memory_usage heap accounting) equals the model's.",
                note="accumulated() refreshes every transitive callee and thereby recomputes evicted values; this is treated as a request. Model trusted: hashlink insert = move-to-back."),
    "C06": dict(engine="e1", quick=10000, thorough=200000, level="exploration",
                text="Makers create 0..k tracked structs conditionally with colliding identity values; oracle over probes/events: same (creator, ident, occurrence) in consecutive executions keeps its id, ids of live structs are pairwise distinct across logical identities, dropped structs are discarded (DidDiscard) and disappear from entries(), functions keyed by a kept struct re-execute only when a tracked field they read changed.",
                note="Identity hash is honest (hash_mod=0) in this class; bad-hash behaviour is out of scope."),
    "C07": dict(engine="e1", quick=8000, thorough=150000, level="exploration",
                text="Churn of tracked structs and interned values (revisions=1..3, all values in one shard) with functions keyed by structs, interned values and (Key,u32) tuples; values = reference (fields encode logical identity so an aliased read differs); whenever a slot is observed with a higher generation every memo of the older generation must already have been discarded; dependents re-execute per the justification model.",
                note="Slot/generation observation relies on ids seen by probes and events; multi-argument key interning is only covered by the value oracle."),
    "C09": dict(engine="e1", quick=8000, thorough=150000, level="exploration",
                text="Interning into It1/It2/It3/ItInf under LOW-only, mixed and MEDIUM/HIGH durabilities with revision bursts; every DidReuseInternedValue is checked one-sidedly against the retention rule (not immortal type, not certainly-durable, enough active revisions, last use older than the r most recent active revisions under the most permissive reading); identities of non-reclaimed values are kept; handles are canonical.",
                note="Active-revision set is bracketed (any activity >= true >= events of the type); alarms only under the permissive bound, exact threshold reported as a diagnostic."),
    "C10": dict(engine="e1", quick=8000, thorough=150000, level="exploration",
                text="Makers conditionally specify q_spec for structs they create (before/after computing it themselves, foreign structs, twice); consumers read through returned handles in both orders; values = reference encoding the statement; the two panics must occur exactly when the program does those things.",
                note="Reference semantics of specify transcribed from the property statement."),
    "C11": dict(engine="e1", quick=8000, thorough=150000, level="exploration",
                text="Conditional accumulation at several depths; accumulated() at random points of histories that make accumulating nodes backdate, be shallow/deep verified, partially reused or NEVER_CHANGE; the returned vector must equal the reference DFS order exactly.",
                note="Reference DFS order transcribed from the documented order (own values, then callees in first-call order, each once)."),
    "C12": dict(engine="e1", quick=10000, thorough=200000, level="exploration",
                text="Seeded cyclic programs over a 4-bit set lattice with monotone q_fix/q_fixj members (nested, input-conditional cycles), all entry orders, histories that create/remove/reshape cycles; every value = least fixpoint computed by Kleene iteration in the reference.",
                note="Monotonicity and input-only call-graph shape are enforced by a taint discipline in the generator and re-checked by Program::valid."),
    "C13": dict(engine="e1", quick=2500, thorough=60000, level="exploration",
                text="Cyclic programs whose block members use cycle_result; expected = fallback for every node on a cycle of the input-determined call graph (SCC analysis in the reference), body value over those results elsewhere; all entry orders within a revision, and histories that form/break cycles. One genuine defect is recorded (known-findings.txt) and matched by its own diagnosis class; every other mismatch is a violation.",
                note="The single-revision class is free of the recorded finding's trigger; the history class reports it as KNOWN-FINDING."),
    "C14": dict(engine="e1", quick=10000, thorough=200000, level="exploration",
                text="Cyclic programs whose block mixes functions without recovery and q_fix; per request: a cycle panic is required on a fresh database when the from-scratch DFS re-enters a non-recovering function, allowed whenever such a function lies on a reachable cycle, otherwise the least-fixpoint value is required; after a panic the same revision may report PropagatedPanic for poisoned heads; later revisions and unrelated nodes = reference. (single-thread part; the multi-thread part runs on E3)",
                note="Hang detection single-threaded = the run returns; cross-thread part pending E3."),
    "C15": dict(engine="e1", quick=6000, thorough=100000, level="exploration",
                text="Fixpoint programs with an input-guarded non-monotone step: guard on => the request ends in the bounded 'too many cycle iterations' panic or converges, never exceeding iteration 200; unrelated nodes = reference; after the guard is switched off the same nodes = least fixpoint in later revisions.",
                note="Values returned while the guard is on are not compared (order-dependent for non-monotone systems)."),
}

COMPONENTS = {
    "e1": {"real": ["all of salsa (normal build, parking_lot primitives, default features + salsa_verif accessors)", "salsa-macros generated code"],
           "stub": ["none (single handle, single thread; user code = program interpreter)"]},
    "e1p": {"real": ["all of salsa incl. persistence feature, serde_json"], "stub": ["none"]},
}


def sim_bin(engine):
    return os.path.join(TARGET, engine, "release", "sim")


def build(engine):
    d, feats = ENGINES[engine]
    cmd = ["cargo", "build", "--release", "--offline", "--manifest-path", os.path.join(ROOT, d, "Cargo.toml")]
    if feats:
        cmd += ["--features", ",".join(feats)]
    env = dict(ENV, CARGO_TARGET_DIR=os.path.join(TARGET, engine))
    p = subprocess.run(cmd, env=env, stdout=subprocess.PIPE, stderr=subprocess.STDOUT, text=True)
    if p.returncode != 0:
        sys.stdout.write(p.stdout[-6000:])
        print(f"HARNESS-ERROR build of engine {engine} failed")
        sys.exit(2)


def known_classes(prop):
    out = []
    for p, sig, _ in load_known():
        if p == prop and sig:
            out += sig.split("|", 1)[1].split("+")
    return sorted(set(out))


def load_known():
    known, fixed = [], []
    path = os.path.join(ROOT, "known-findings.txt")
    if os.path.exists(path):
        for line in open(path):
            line = line.strip()
            if not line or line.startswith("#"):
                continue
            if line.startswith("fixed:"):
                fixed.append(line)
            elif line.startswith("finding:"):
                # finding: property=C04 signature=<sig> :: description
                body = line[len("finding:"):].strip()
                head, _, desc = body.partition("::")
                kv = dict(x.split("=", 1) for x in head.split() if "=" in x)
                known.append((kv.get("property"), kv.get("signature"), desc.strip()))
    return known


def read_hashes(path):
    a = array.array("Q")
    if os.path.exists(path):
        with open(path, "rb") as f:
            data = f.read()
        a.frombytes(data)
    return a


def run_check(prop, tier):
    cfg = PROPS[prop]
    engine = cfg["engine"]
    t0 = time.time()
    build(engine)
    seed = int(os.environ.get("VERIF_SEED", "1"))
    per_worker = cfg[tier]
    out_root = os.path.join(TARGET, "runs", f"{prop}-{tier}")
    shutil.rmtree(out_root, ignore_errors=True)
    os.makedirs(out_root)
    procs = []
    for w in range(NPROC):
        out = os.path.join(out_root, f"w{w}")
        cmd = [sim_bin(engine), "run", "--prop", prop, "--tier", tier, "--base", str(seed),
               "--from", str(w * per_worker), "--to", str((w + 1) * per_worker), "--out", out,
               "--max-s", str(cfg.get("max_s_" + tier, 100000)), "--known", ",".join(known_classes(prop))]
        procs.append((w, out, subprocess.Popen(cmd, env=ENV, stdout=subprocess.PIPE, stderr=subprocess.PIPE, text=True)))
    results, harness_errors, aborts = [], [], []
    for w, out, p in procs:
        so, se = p.communicate()
        if p.returncode != 0:
            # attributable abort: the worker wrote the seed it was about to run
            cur = [f for f in os.listdir(out) if f.startswith("cur.")] if os.path.isdir(out) else []
            seedinfo = open(os.path.join(out, cur[0])).read().split() if cur else None
            aborts.append((w, p.returncode, seedinfo, se[-2000:]))
            continue
        results.append(json.load(open(os.path.join(out, "result.json"))))
    runs = sum(r["runs"] for r in results)
    steps = sum(r["steps"] for r in results)
    revisions = sum(r["revisions"] for r in results)
    stats = {}
    classes = {}
    for r in results:
        for k, v in r["stats"].items():
            stats[k] = stats.get(k, 0) + v
        for k, v in r["classes"].items():
            classes[k] = classes.get(k, 0) + v
        harness_errors += r["harness_errors"]
    distinct, nontrivial = set(), set()
    for w in range(NPROC):
        distinct.update(read_hashes(os.path.join(out_root, f"w{w}", "hashes.bin")))
        nontrivial.update(read_hashes(os.path.join(out_root, f"w{w}", "nontrivial.bin")))
    samples = []
    for r in results:
        samples += r["samples"]
    samples = samples[:3]

    # --- violations: confirm each by replaying its minimised file in a fresh process
    known = load_known()
    confirmed, known_hits = [], []
    rep_dir = os.path.join(ROOT, "replays", prop)
    known_hit_counts = {}
    for r in results:
        for k, v in r.get("known_hits", {}).items():
            known_hit_counts[k] = known_hit_counts.get(k, 0) + v
    for r in results:
        for v in r["violations"] + r.get("known_samples", []):
            p = subprocess.run([sim_bin(engine), "replay", v["replay"]], env=ENV, stdout=subprocess.PIPE, stderr=subprocess.PIPE, text=True)
            if p.returncode == 1 and "REPRODUCED" in p.stdout:
                sig = v.get("signature", "")
                hit = [k for k in known if k[0] == prop and k[1] == sig]
                if hit:
                    known_hits.append((sig, hit[0][2]))
                    continue
                os.makedirs(rep_dir, exist_ok=True)
                dst = os.path.join(rep_dir, os.path.basename(v["replay"]))
                shutil.copy(v["replay"], dst)
                confirmed.append((v, dst))
            else:
                harness_errors.append(f"violation at seed {v['seed']} did not reproduce from its replay file ({p.stdout.strip()[-300:]})")
    for w, rc, seedinfo, se in aborts:
        if seedinfo:
            # reproduce the abort in a fresh process from the seed
            os.makedirs(rep_dir, exist_ok=True)
            dst = os.path.join(rep_dir, f"{prop}-{seedinfo[1]}.abort.json")
            p = subprocess.run([sim_bin(engine), "show", "--prop", prop, "--seed", seedinfo[1], "--tier", tier], env=ENV, stdout=subprocess.PIPE, stderr=subprocess.PIPE, text=True)
            if p.stdout.strip().startswith("{"):
                open(dst, "w").write(p.stdout)
            if p.returncode not in (0,):
                confirmed.append(({"seed": int(seedinfo[1]), "classes": ["process_abort"], "detail": f"worker aborted (rc={rc}): {se[-300:]}", "signature": f"{prop}|process_abort"}, dst))
            else:
                harness_errors.append(f"worker {w} aborted (rc={rc}) at seed {seedinfo[1]} but the seed does not abort alone: {se[-300:]}")
        else:
            harness_errors.append(f"worker {w} failed rc={rc}: {se[-500:]}")

    wall = time.time() - t0
    fault_kinds = {k: v for k, v in stats.items() if k.startswith("fault_") or k.startswith("faults_") or k.startswith("disturb_")}
    probes = {k: v for k, v in stats.items() if not k.startswith("runs_with_")}
    evidence = {
        "property_id": prop,
        "tier": tier,
        "seed": seed,
        "level": cfg["level"],
        "coverage": {
            "evaluations": runs,
            "distinct_nontrivial": len(nontrivial),
            "distinct_cases": len(distinct),
            "rule": cfg.get("rule") or rule_of(engine, prop),
            "samples": samples,
            "simulated_steps": steps,
            "simulated_revisions": revisions,
            "runs_per_hour": int(runs / max(wall, 1e-9) * 3600),
            "run_classes": classes,
            "fault_kinds_fired": fault_kinds,
            "probes": probes,
            "runs_reaching_probe": {k[len("runs_with_"):]: v for k, v in stats.items() if k.startswith("runs_with_")},
            "determinism_selfcheck_runs": sum(r["selfcheck_runs"] for r in results),
            "components": COMPONENTS.get(engine, {}),
            "engine": engine,
            "workers": NPROC,
            "known_findings_hit": sorted(set(k[0] for k in known_hits)),
            "known_finding_runs": known_hit_counts,
        },
        "assumptions": [
            "the reference interpreter (sim/src/refi.rs) is the specification of from-scratch results",
            "sampling, not enumeration: a clean batch is evidence, not proof",
        ],
        "wall_s": round(wall, 3),
        "violations": len(confirmed),
    }
    os.makedirs(os.path.join(ROOT, "evidence"), exist_ok=True)
    with open(os.path.join(ROOT, "evidence", f"{prop}.json"), "w") as f:
        json.dump(evidence, f, indent=1, sort_keys=True)
    seen = set()
    for sig, desc in known_hits:
        if sig not in seen:
            seen.add(sig)
            print(f"KNOWN-FINDING: property={prop} {desc} [signature {sig}]")
    for v, dst in confirmed[:10]:
        print(f"VIOLATION property={prop} replay={dst}")
        print(f"  seed={v['seed']} classes={','.join(v['classes'])} detail={v.get('detail')}")
    if len(confirmed) > 10:
        print(f"  ... and {len(confirmed) - 10} more confirmed violations (replays under replays/{prop}/)")
    print(f"{prop} {tier}: runs={runs} distinct_nontrivial={len(nontrivial)} steps={steps} revisions={revisions} wall={wall:.1f}s violations={len(confirmed)} known={len(known_hits)} harness_errors={len(harness_errors)}")
    if confirmed:
        sys.exit(1)
    if harness_errors:
        for h in harness_errors[:10]:
            print("HARNESS-ERROR", h)
        sys.exit(2)
    if runs == 0:
        print("HARNESS-ERROR no runs")
        sys.exit(2)
    sys.exit(0)


def rule_of(engine, prop):
    p = subprocess.run([sim_bin(engine), "rule", prop], env=ENV, stdout=subprocess.PIPE, text=True)
    return p.stdout.strip()


TECH = {"e1": "deterministic simulation: seeded single-handle history simulator, reference-model and event-log oracles",
        "e1p": "deterministic simulation: seeded history simulator with snapshot/restore (crash-restart) steps, reference-model oracle",
        "e3": "deterministic simulation: seeded baton scheduler over real threads behind salsa's sync seam, fault injection, reference-model oracle"}


def write_manifest():
    m = json.load(open(os.path.join(ROOT, "MANIFEST.json")))
    checks = []
    for pid in sorted(PROPS):
        c = PROPS[pid]
        checks.append({
            "property_id": pid,
            "quick_cmd": f"python3 vcheck.py {pid} --tier quick",
            "thorough_cmd": f"python3 vcheck.py {pid} --tier thorough",
            "evidence_file": f"evidence/{pid}.json",
            "replay_cmd_template": "python3 vcheck.py --replay {path}",
            "engine": c["engine"],
            "level_claimed": {"category": c["level"], "text": c["text"], "design_ref": f"DESIGN.md §5 {pid}"},
            "level_note": c["note"],
            "technique": TECH[c["engine"]],
        })
    m["checks"] = checks
    claimed = set(PROPS)
    m["not_applicable"] = [x for x in m.get("not_applicable", []) if x["property_id"] not in claimed]
    engines = {}
    for pid, c in PROPS.items():
        engines.setdefault(c["engine"], []).append(pid)
    m["engines"] = [{"name": e, "path": ENGINES[e][0], "serves_properties": sorted(ps), "kind_free_text": TECH[e]} for e, ps in sorted(engines.items())]
    json.dump(m, open(os.path.join(ROOT, "MANIFEST.json"), "w"), indent=1)
    print("MANIFEST.json written:", len(checks), "checks")


def main():
    a = sys.argv[1:]
    if not a:
        print(__doc__)
        sys.exit(2)
    if a[0] == "--manifest":
        write_manifest()
        return
    if a[0] == "--setup":
        for e in sorted(set(c["engine"] for c in PROPS.values())):
            build(e)
        print("setup ok")
        return
    if a[0] == "--replay":
        c = json.load(open(a[1]))
        engine = PROPS[c["property"]]["engine"]
        build(engine)
        p = subprocess.run([sim_bin(engine), "replay", a[1]], env=ENV)
        sys.exit(p.returncode)
    prop = a[0]
    tier = os.environ.get("VERIF_TIER", "quick")
    if "--tier" in a:
        tier = a[a.index("--tier") + 1]
    run_check(prop, tier)


if __name__ == "__main__":
    main()
