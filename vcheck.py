#!/usr/bin/env python3
"""Driver: build engines from /repo's working tree, fan out seeded simulation workers,
aggregate evidence, confirm violations by replay in a fresh process, print
VIOLATION / KNOWN-FINDING lines. Exit 0 = property held on everything explored,
1 = violation, 2 = harness error (build failure, replay divergence, determinism mismatch).

usage: vcheck.py <Cxx> [--tier quick|thorough]      run one property's check
       vcheck.py --setup                            build every engine (offline)
       vcheck.py --replay <file>                    replay one file
"""
import array, json, os, shutil, subprocess, sys, time

ROOT = os.path.dirname(os.path.abspath(__file__))
TARGET = os.path.join(ROOT, "target")
NPROC = int(os.environ.get("VERIF_WORKERS", "16"))

ENV = dict(os.environ, CARGO_NET_OFFLINE="true")

# engine -> (manifest dir, cargo features)
ENGINES = {
    "e1": ("engines/e1", []),
    "e1p": ("engines/e1", ["persistence"]),
    "e3": ("engines/e3", []),
}

# property -> configuration
#   engine, runs per worker (quick, thorough)
PROPS = {
    "C01": dict(engine="e1", quick=12000, thorough=250000, level="exploration",
                text="Seeded search over generated acyclic programs (all non-cycle function kinds, tracked structs, interning with reclamation, untracked reads, no_eq, dynamic calls) and write/query histories; every returned value and field is compared with an independent from-scratch reference interpreter and, on a sample, with a fresh salsa database.",
                note="Trusted: reference interpreter + shared op stepping. Bounds: <=18 nodes, <=70 steps, values mod <=8."),
    "C02": dict(engine="e1", quick=10000, thorough=200000, level="exploration",
                text="Seeded histories with durability churn (every write draws LOW/MEDIUM/HIGH/NEVER_CHANGE or keeps; synthetic writes of every durability); values = reference; writes to frozen fields and NEVER_CHANGE synthetic writes must panic and leave results unchanged.",
                note="Trusted: reference interpreter. Durability shortcut reach is inferred from validation events, not instrumented."),
    "C03": dict(engine="e1", quick=10000, thorough=200000, level="exploration",
                text="Every body execution observed (WillExecute + body probe) is checked against a justification model fed by read probes: an execution of a key with a live, tracked memo must be explained by a write to a field it read, a callee whose value/durability changed, a recreated tracked field, a reclaimed interned value, eviction or untracked state. One-sided: unknown durability counts as justified.",
                note="Model of durability is exact for input reads and calls, conservative (always justified) through interned values, LRU functions and multi-argument key interning."),
    "C04": dict(engine="e1", quick=10000, thorough=200000, level="exploration",
                text="Programs with untracked reads of harness-controlled cells; after each cell change + synthetic write of any durability: values = reference, every untracked function reachable from a request executed in that revision, and dependents of an untracked function that returned an equal value are not re-executed (justification model).",
                note="Acyclic classes only are alarm-free; the cyclic class carries the known finding (untracked read by a cycle participant)."),
    "C05": dict(engine="e1", quick=8000, thorough=150000, level="exploration",
                text="Programs with q_lru sub-nodes under request/write/set_lru_capacity/trigger_lru_eviction histories; transparency: values = reference; an exact list model of record-use/pop-front predicts which values are evicted: a predicted-evicted value must be recomputed when (and only when) it is next requested, a predicted-retained one is re-executed only for a changed dependency, and after every revision start/trigger the number of cached q_lru values (memory_usage heap accounting) equals the model's.",
                note="accumulated() refreshes every transitive callee and thereby recomputes evicted values; this is treated as a request. Model trusted: hashlink insert = move-to-back."),
    "C06": dict(engine="e1", quick=10000, thorough=200000, level="exploration",
                text="Makers create 0..k tracked structs conditionally with colliding identity values; oracle over probes/events: same (creator, ident, occurrence) in consecutive executions keeps its id, ids of live structs are pairwise distinct across logical identities, dropped structs are discarded (DidDiscard) and disappear from entries(), functions keyed by a kept struct re-execute only when a tracked field they read changed.",
                note="Identity hash is honest (hash_mod=0) in this class; bad-hash behaviour is out of scope."),
    "C07": dict(engine="e1", quick=8000, thorough=150000, level="exploration",
                text="Churn of tracked structs and interned values (revisions=1..3, all values in one shard) with functions keyed by structs, interned values and (Key,u32) tuples; values = reference (fields encode logical identity so an aliased read differs); whenever a slot is observed with a higher generation every memo of the older generation must already have been discarded; dependents re-execute per the justification model.",
                note="Slot/generation observation relies on ids seen by probes and events; multi-argument key interning is only covered by the value oracle."),
    "C09": dict(engine="e1", quick=8000, thorough=150000, level="exploration",
                text="Interning into It1/It2/It3/ItInf under LOW-only, mixed and MEDIUM/HIGH durabilities with revision bursts; every DidReuseInternedValue is checked one-sidedly against the retention rule (not immortal type, not certainly-durable, enough active revisions, last use older than the r most recent active revisions under the most permissive reading); identities of non-reclaimed values are kept; handles are canonical.",
                note="Active-revision set is bracketed (any activity >= true >= events of the type); alarms only under the permissive bound, exact threshold reported as a diagnostic."),
    "C10": dict(engine="e1", quick=8000, thorough=150000, level="exploration",
                text="Makers conditionally specify q_spec for structs they create (before/after computing it themselves, foreign structs, twice); consumers read through returned handles in both orders; values = reference encoding the statement; the two panics must occur exactly when the program does those things.",
                note="Reference semantics of specify transcribed from the property statement."),
    "C11": dict(engine="e1", quick=8000, thorough=150000, level="exploration",
                text="Conditional accumulation at several depths; accumulated() at random points of histories that make accumulating nodes backdate, be shallow/deep verified, partially reused or NEVER_CHANGE; the returned vector must equal the reference DFS order exactly.",
                note="Reference DFS order transcribed from the documented order (own values, then callees in first-call order, each once)."),
    "C12": dict(engine="e1", quick=25000, thorough=200000, level="exploration",
                text="Seeded cyclic programs over a 4-bit set lattice with monotone q_fix/q_fixj members (nested, input-conditional cycles), all entry orders, histories that create/remove/reshape cycles; every value = least fixpoint computed by Kleene iteration in the reference.",
                note="Monotonicity and input-only call-graph shape are enforced by a taint discipline in the generator and re-checked by Program::valid."),
    "C13": dict(engine="e1", quick=2500, thorough=60000, level="exploration",
                text="Cyclic programs whose block members use cycle_result; expected = fallback for every node on a cycle of the input-determined call graph (SCC analysis in the reference), body value over those results elsewhere; all entry orders within a revision, and histories that form/break cycles. One genuine defect is recorded (known-findings.txt) and matched by its own diagnosis class; every other mismatch is a violation.",
                note="The single-revision class is free of the recorded finding's trigger; the history class reports it as KNOWN-FINDING."),
    "C14": dict(parts=[dict(engine="e1", quick=4000, thorough=150000), dict(engine="e3", quick=5000, thorough=120000)], level="exploration",
                text="Cyclic programs whose block mixes functions without recovery and q_fix; per request: a cycle panic is required on a fresh database when the from-scratch DFS re-enters a non-recovering function, allowed whenever such a function lies on a reachable cycle, otherwise the least-fixpoint value is required; after a panic the same revision may report PropagatedPanic for poisoned heads; later revisions and unrelated nodes = reference. (single-thread part; the multi-thread part runs on E3)",
                note="Hang detection single-threaded = the run returns; cross-thread part pending E3."),
    "C15": dict(engine="e1", quick=6000, thorough=100000, level="exploration",
                text="Fixpoint programs with an input-guarded non-monotone step: guard on => the request ends in the bounded 'too many cycle iterations' panic or converges, never exceeding iteration 200; unrelated nodes = reference; after the guard is switched off the same nodes = least fixpoint in later revisions.",
                note="Values returned while the guard is on are not compared (order-dependent for non-monotone systems)."),
    "C08": dict(level="exploration", parts=[dict(engine="e3", quick=6000, thorough=150000), dict(engine="e1", quick=6000, thorough=100000)],
                text="Threads intern overlapping small values of It1/It2/It3/ItInf concurrently, directly and inside queries, over joined revisions, under the seeded baton scheduler (random / PCT / round-robin, spurious condvar wake-ups); per revision: equal data <=> equal handle across all threads and queries, fields read back. Single-handle part (E1): canonicity, identity kept across revisions for values interned in every revision.",
                note="E3 replaces the sync primitives by the scheduler's (sequentially consistent interleavings only)."),
    "C16": dict(level="exploration", parts=[dict(engine="e3", quick=6000, thorough=150000)],
                text="2-4 reader threads (one clone each) request nodes of generated acyclic programs with shared sub-queries under seeded schedules; every value = reference, every thread terminates (deadlock = no runnable thread, livelock = step bound), joined writes between rounds.",
                note="Schedules are sampled (random with stay bias, PCT depth<=3/5, round robin), not enumerated; SC interleavings only."),
    "C17": dict(level="exploration", parts=[dict(engine="e3", quick=6000, thorough=150000)],
                text="Same runs as C16 over 2-3 revisions; monitor over the global event log: at most one WillExecute per (function, key) per revision across all threads.",
                note="Programs are acyclic, fault-free, cancellation-free, eviction-free by construction."),
    "C18": dict(level="exploration", parts=[dict(engine="e3", quick=6000, thorough=150000)],
                text="2-4 threads enter generated fixpoint / fallback cycles (nested, conditional) at different members under seeded schedules; every value = least fixpoint / SCC fallback reference, all threads terminate.",
                note="Fallback programs are explored within one revision only (recorded C13 finding needs a later revision)."),
    "C19": dict(level="exploration", parts=[dict(engine="e3", quick=12000, thorough=150000)],
                text="Trace validation: every E3 run (reader, cross-thread cycle, writer-cancellation, token-cancellation and panic-with-waiters scenarios) records the operations of the dependency graph and of claim release through a feature-gated hook; an independent executable model of the protocol replays the trace: every wait is woken exactly once and resumes with that result, no wake-up reaches a non-waiting thread, the thread wait-for graph (with edges re-pointed by lock transfers) stays acyclic after every insertion, each wake-up result is justified by the release (or ownership hand-over) that caused it, nothing is left waiting at quiescence.",
                note="The exhaustive model check named in the property's quantifier is outside this technique family and is not claimed; the claim is trace validation over all explored schedules."),
    "C20": dict(level="exploration", parts=[dict(engine="e3", quick=15000, thorough=150000)],
                text="Reader threads run generated programs (acyclic and fixpoint) while the main thread performs one write (input write, synthetic write, set_lru_capacity, trigger_lru_eviction, trigger_cancellation) at a scheduler-chosen moment; readers drop their clone when done or cancelled: the writer must terminate, every reader value = reference of the pre-write revision, every reader panic is a Cancelled (PendingWrite, or PropagatedPanic for readers waiting on a cancelled reader), after the write everything = reference of the new inputs.",
                note="Which cancellation payload a waiting reader sees is not constrained by the property; only value freshness and writer progress are checked."),
    "C21": dict(level="exploration", parts=[dict(engine="e3", quick=6000, thorough=150000)],
                text="A controller cancels reader tokens at scheduler-chosen moments (including inside fixpoint cycles and while other readers wait on the cancelled computation): at most one Cancelled::Local per cancel() and only on that handle, other readers and later requests on the handle return reference values, no deadlock.",
                note="Moment of cancellation is a number of controller yields, i.e. sampled."),
    "C24": dict(level="exploration", parts=[dict(engine="e3", quick=6000, thorough=150000)],
                text="Threads create inputs, tracked structs (through queries on distinct keys) and interned values concurrently while handles are cloned and dropped; ids of inputs pairwise distinct, tracked-struct ids distinct per (creator, ident), every id reads back the fields it was created with.",
                note="Page recycling is exercised through clone/drop of handles; the small-page knob is not built."),
    "C22": dict(level="fault_enumeration", parts=[dict(engine="e1", quick=3000, thorough=40000), dict(engine="e3", quick=500, thorough=15000)],
                text="Fault enumeration (E1): every generated base history is first run fault-free to count user callbacks by class (body op, V::eq, V::hash, cycle_fn, cycle_initial/cycle_result, event callback); it is then re-run with a panic injected at every callback of the rare classes and a sample of body ops; half of the base histories are those of the churn classes (C07 struct/interned slot reuse, C09 retention, C06 struct identity, C05 LRU), truncated to 30 steps, so that discards and slot reuse become fault points inside histories that revisit the affected memos. Oracle: the panic reaches the caller of that step, the step is retried (after a new revision for poisoned cycle members) and every later result = reference; a process abort (double panic) is reported from the worker's seed file. Concurrent part (E3): a panic at a random callback while other threads request the same or dependent nodes: waiters get PropagatedPanic or a correct value, never hang.",
                note="One genuine defect was repaired (fix: commit f6eb44f), one is recorded (known-findings.txt: stale-output deletion interrupted by an event-callback panic)."),
    "C23": dict(level="exploration", parts=[dict(engine="e1", quick=2500, thorough=60000), dict(engine="e3", quick=3000, thorough=60000)],
                text="Histories of the single-handle classes (structs, interning with reclamation, LRU eviction, fixpoint and fallback cycles, specify, accumulators; one third with an injected panic) executed under a quarantining, poisoning global allocator: freed blocks are poisoned and parked, so a read after free yields poison (checked on every value read back from salsa), a write after free is detected when the block leaves quarantine, a free of a quarantined block is a double free; references returned by q_ref are held across later requests and revalidated until the next mutable borrow; on a sample the live bytes left after dropping the database must not grow from one execution to the next. A segfault/abort of a worker is attributed to its seed. Concurrent part (E3): the scenario families that free or recycle memory while other threads run (writer cancellation with LRU changes, token cancellation, panics with waiters, interned reclamation, struct creation with handle clone/drop, cross-thread cycles) under the same allocator and the seeded schedulers; only the memory classes (poison read, write after free, double free, abort) count there.",
                note="Dynamic detection on sampled histories and schedules, not a proof of absence; the baton scheduler serialises threads, so data races on plain memory are out of reach (sequentially consistent interleavings only); the thorough tier adds a Miri sample of the single-handle classes (guard off there)."),
    "C26": dict(level="exploration", parts=[dict(engine="e1p", quick=6000, thorough=100000)],
                text="Histories with SnapshotRestore steps (serde_json round trip of the whole database into a fresh database of the same type = crash/restart with only durable state surviving) at arbitrary points; every persisted function returns the reference value on the restored database, unchanged persisted results are not re-executed (justification model), the history continues with values = reference.",
                note="q_noeq / q_lru are deliberately not persisted (dependency flattening); recorded findings are matched by their own classes."),
}

COMPONENTS = {
    "e1": {"real": ["all of salsa (normal build, parking_lot primitives, default features + salsa_verif accessors)", "salsa-macros generated code"],
           "stub": ["none (single handle, single thread; user code = program interpreter)"]},
    "e1p": {"real": ["all of salsa incl. persistence feature, serde_json"], "stub": ["none"]},
    "e3": {"real": ["all of salsa built with its `shuttle` feature from /repo's sources (shadow manifest)", "real OS threads, real unwinding, real thread-locals"],
           "stub": ["Mutex/Condvar/atomics/thread spawn+join = verif-sched (baton scheduler, sequentially consistent); parking_lot is not exercised"]},
}


def toml_val(v):
    if isinstance(v, bool):
        return "true" if v else "false"
    if isinstance(v, str):
        return json.dumps(v)
    if isinstance(v, list):
        return "[" + ", ".join(toml_val(x) for x in v) + "]"
    if isinstance(v, dict):
        return "{ " + ", ".join(f"{k} = {toml_val(x)}" for k, x in v.items()) + " }"
    return str(v)


def gen_shadow():
    """Shadow manifest: the package `salsa` built from /repo's sources, with the optional
    dependency `shuttle` re-targeted to our scheduler crate (lib name `shuttle`). Regenerated
    from /repo/Cargo.toml on every run; /repo itself is not touched."""
    import tomllib
    repo = "/repo"
    t = tomllib.load(open(os.path.join(repo, "Cargo.toml"), "rb"))
    ws = t.get("workspace", {}).get("package", {})
    pkg = t["package"]
    out = ["# GENERATED by vcheck.py from /repo/Cargo.toml -- do not edit", "[package]", 'name = "salsa"', f'version = {toml_val(pkg["version"])}',
           f'edition = {toml_val(ws.get("edition", "2021"))}', "publish = false", "", "[lib]", f'path = {toml_val(os.path.join(repo, "src/lib.rs"))}', "", "[dependencies]"]
    for name, spec in t["dependencies"].items():
        if isinstance(spec, str):
            spec = {"version": spec}
        spec = dict(spec)
        if "path" in spec:
            spec["path"] = os.path.join(repo, spec["path"])
            spec.pop("version", None)
        if name == "shuttle":
            spec = {"package": "verif-sched", "path": os.path.join(ROOT, "crates/verif-sched"), "optional": True}
        out.append(f"{name} = {toml_val(spec)}")
    out += ["", "[features]"]
    for name, deps in t["features"].items():
        out.append(f"{name} = {toml_val(deps)}")
    d = os.path.join(ROOT, "shadow", "salsa")
    os.makedirs(d, exist_ok=True)
    text = "\n".join(out) + "\n"
    p = os.path.join(d, "Cargo.toml")
    if not os.path.exists(p) or open(p).read() != text:
        open(p, "w").write(text)


def sim_bin(engine):
    return os.path.join(TARGET, engine, "release", "sim")


def build(engine):
    d, feats = ENGINES[engine]
    if engine == "e3":
        gen_shadow()
        lock = os.path.join(ROOT, d, "Cargo.lock")
        if not os.path.exists(lock):
            shutil.copy("/repo/Cargo.lock", lock)
    cmd = ["cargo", "build", "--release", "--offline", "--manifest-path", os.path.join(ROOT, d, "Cargo.toml")]
    if feats:
        cmd += ["--features", ",".join(feats)]
    env = dict(ENV, CARGO_TARGET_DIR=os.path.join(TARGET, engine))
    p = subprocess.run(cmd, env=env, stdout=subprocess.PIPE, stderr=subprocess.STDOUT, text=True)
    if p.returncode != 0:
        sys.stdout.write(p.stdout[-6000:])
        print(f"HARNESS-ERROR build of engine {engine} failed")
        sys.exit(2)


def known_classes(prop):
    out = []
    for p, sig, _ in load_known():
        if p == prop and sig:
            out += sig.split("|", 1)[1].split("+")
    return sorted(set(out))


def load_known():
    known, fixed = [], []
    path = os.path.join(ROOT, "known-findings.txt")
    if os.path.exists(path):
        for line in open(path):
            line = line.strip()
            if not line or line.startswith("#"):
                continue
            if line.startswith("fixed:"):
                fixed.append(line)
            elif line.startswith("finding:"):
                # finding: property=C04 signature=<sig> :: description
                body = line[len("finding:"):].strip()
                head, _, desc = body.partition("::")
                kv = dict(x.split("=", 1) for x in head.split() if "=" in x)
                known.append((kv.get("property"), kv.get("signature"), desc.strip()))
    return known


def read_hashes(path):
    a = array.array("Q")
    if os.path.exists(path):
        with open(path, "rb") as f:
            data = f.read()
        a.frombytes(data)
    return a


def parts_of(cfg):
    return cfg.get("parts") or [dict(engine=cfg["engine"], quick=cfg["quick"], thorough=cfg["thorough"])]


def run_check(prop, tier):
    cfg = PROPS[prop]
    t0 = time.time()
    parts = parts_of(cfg)
    for part in parts:
        build(part["engine"])
    seed = int(os.environ.get("VERIF_SEED", "1"))
    out_root = os.path.join(TARGET, "runs", f"{prop}-{tier}")
    shutil.rmtree(out_root, ignore_errors=True)
    os.makedirs(out_root)
    results, harness_errors, aborts = [], [], []
    all_outs = []
    for pi, part in enumerate(parts):
        engine = part["engine"]
        per_worker = part[tier]
        procs = []
        for w in range(NPROC):
            out = os.path.join(out_root, f"p{pi}w{w}")
            all_outs.append(out)
            cmd = [sim_bin(engine), "run", "--prop", prop, "--tier", tier, "--base", str(seed),
                   "--from", str(w * per_worker), "--to", str((w + 1) * per_worker), "--out", out,
                   "--max-s", str(part.get("max_s_" + tier, 100000)), "--known", ",".join(known_classes(prop))]
            WORKER_CMDS[(engine, w)] = dict(engine=engine, prop=prop, tier=tier, base=seed, frm=w * per_worker, to=(w + 1) * per_worker)
            procs.append((w, out, engine, subprocess.Popen(cmd, env=ENV, stdout=subprocess.PIPE, stderr=subprocess.PIPE, text=True)))
        run_part(procs, results, harness_errors, aborts)
    miri = None
    if prop == "C23" and tier == "thorough" and os.environ.get("VERIF_NO_MIRI") is None:
        miri = miri_sample(out_root, seed, harness_errors)
    finish_check(prop, tier, cfg, parts, seed, t0, out_root, all_outs, results, harness_errors, aborts, miri)


def case_hash(path):
    """Identifies one generated case (program, inputs, history / rounds, scheduler parameters)."""
    import hashlib
    try:
        c = json.load(open(path))
    except Exception:
        return "?"
    cc = c.get("conc") or {}
    key = {"prog": c.get("prog"), "world": c.get("world"), "hist": c.get("hist"), "panic_at": c.get("panic_at"), "rounds": cc.get("rounds"),
           "sched": [cc.get("strategy"), cc.get("sched_seed"), cc.get("stay_pct"), cc.get("pct_depth"), cc.get("pct_horizon"), cc.get("spurious_pct")]}
    return hashlib.sha1(json.dumps(key, sort_keys=True).encode()).hexdigest()[:12]


WORKER_CMDS = {}


def replay_range(rg, timeout):
    """Re-run a worker's seed range [frm, to) in a fresh process (the worker is a deterministic
    function of its arguments). Returns the process return code (None = timed out)."""
    out = os.path.join(TARGET, "range-replay", f"{rg['prop']}-{rg['frm']}-{rg['to']}")
    shutil.rmtree(out, ignore_errors=True)
    cmd = [sim_bin(rg["engine"]), "run", "--prop", rg["prop"], "--tier", rg["tier"], "--base", str(rg["base"]),
           "--from", str(rg["frm"]), "--to", str(rg["to"]), "--out", out, "--max-s", "100000",
           "--known", ",".join(known_classes(rg["prop"]))]
    try:
        p = subprocess.run(cmd, env=ENV, stdout=subprocess.PIPE, stderr=subprocess.PIPE, text=True, timeout=timeout)
        return p.returncode
    except subprocess.TimeoutExpired:
        return None
    finally:
        shutil.rmtree(out, ignore_errors=True)


MIRI_PROPS = ["C01", "C05", "C07", "C10", "C11", "C12", "C13", "C15"]


def miri_sample(out_root, seed, harness_errors):
    """C23 thorough: a sample of the single-handle classes under Miri (the quarantining allocator
    is off there: it would hide frees from Miri). One process per class, in parallel."""
    env = dict(ENV, CARGO_TARGET_DIR=os.path.join(TARGET, "miri"), MIRIFLAGS="-Zmiri-disable-isolation -Zmiri-ignore-leaks")
    manifest = os.path.join(ROOT, "engines/e1/Cargo.toml")
    b = subprocess.run(["cargo", "+nightly", "miri", "run", "--offline", "--release", "--manifest-path", manifest, "--", "rule", "C01"], env=env, stdout=subprocess.PIPE, stderr=subprocess.STDOUT, text=True)
    if b.returncode != 0:
        harness_errors.append("miri build/run failed: " + b.stdout[-400:])
        return None
    procs = []
    n = int(os.environ.get("VERIF_MIRI_SEEDS", "8"))
    for p in MIRI_PROPS:
        out = os.path.join(out_root, f"miri-{p}")
        cmd = ["cargo", "+nightly", "miri", "run", "--offline", "--release", "--manifest-path", manifest, "--",
               "run", "--prop", p, "--base", str(seed), "--from", "0", "--to", str(n), "--out", out, "--selfcheck", "0"]
        procs.append((p, out, subprocess.Popen(cmd, env=env, stdout=subprocess.PIPE, stderr=subprocess.STDOUT, text=True)))
    res = {"runs": 0, "classes": [], "ub": []}
    for p, out, pr in procs:
        so, _ = pr.communicate()
        if pr.returncode != 0:
            cur = [f for f in os.listdir(out) if f.startswith("cur.")] if os.path.isdir(out) else []
            seedinfo = open(os.path.join(out, cur[0])).read().split() if cur else [p, "?"]
            kind = "Undefined Behavior" if "Undefined Behavior" in so else "abnormal exit"
            res["ub"].append({"prop": p, "seed": seedinfo[-1], "kind": kind, "tail": so[-600:]})
        else:
            try:
                res["runs"] += json.load(open(os.path.join(out, "result.json")))["runs"]
                res["classes"].append(p)
            except Exception as e:
                harness_errors.append(f"miri sample {p}: {e}")
    return res


HANG_S = float(os.environ.get("VERIF_HANG_S", "120"))


def run_part(procs, results, harness_errors, aborts):
    """Wait for the workers of one part. A worker whose current seed (file cur.<pid>, rewritten
    before every run) does not change for HANG_S seconds is killed: the run it is stuck in
    neither finished nor reached a scheduling point, which is reported as a hang of that seed."""
    state = {}
    pending = list(procs)
    while pending:
        time.sleep(0.25)
        now = time.time()
        for item in list(pending):
            w, out, engine, p = item
            if p.poll() is not None:
                pending.remove(item)
                continue
            cur = None
            try:
                names = [f for f in os.listdir(out) if f.startswith("hb.")]
                if names:
                    cur = open(os.path.join(out, names[0])).read()
            except OSError:
                pass
            last = state.get(w)
            if last is None or last[0] != cur:
                state[w] = (cur, now)
            elif now - last[1] > HANG_S:
                p.kill()
                state[w] = (cur, now, "hung")
    for w, out, engine, p in procs:
        so, se = p.communicate()
        hung = len(state.get(w, ())) == 3
        if p.returncode != 0:
            # attributable abort: the worker wrote the seed it was about to run
            cur = [f for f in os.listdir(out) if f.startswith("cur.")] if os.path.isdir(out) else []
            seedinfo = open(os.path.join(out, cur[0])).read().split() if cur else None
            aborts.append((w, "hang" if hung else p.returncode, seedinfo, se[-2000:], engine))
            continue
        r = json.load(open(os.path.join(out, "result.json")))
        r["engine"] = engine
        results.append(r)


def finish_check(prop, tier, cfg, parts, seed, t0, out_root, all_outs, results, harness_errors, aborts, miri=None):
    engine = parts[0]["engine"]
    runs = sum(r["runs"] for r in results)
    steps = sum(r["steps"] for r in results)
    revisions = sum(r["revisions"] for r in results)
    stats = {}
    classes = {}
    for r in results:
        for k, v in r["stats"].items():
            stats[k] = stats.get(k, 0) + v
        for k, v in r["classes"].items():
            classes[k] = classes.get(k, 0) + v
        harness_errors += r["harness_errors"]
    distinct, nontrivial = set(), set()
    for o in all_outs:
        distinct.update(read_hashes(os.path.join(o, "hashes.bin")))
        nontrivial.update(read_hashes(os.path.join(o, "nontrivial.bin")))
    samples = []
    for r in results:
        samples += r["samples"]
    samples = samples[:3]

    # --- violations: confirm each by replaying its minimised file in a fresh process
    known = load_known()
    confirmed, known_hits = [], []
    rep_dir = os.path.join(ROOT, "replays", prop)
    known_hit_counts = {}
    for r in results:
        for k, v in r.get("known_hits", {}).items():
            known_hit_counts[k] = known_hit_counts.get(k, 0) + v
    for r in results:
        for v in r["violations"] + r.get("known_samples", []):
            try:
                p = subprocess.run([sim_bin(r["engine"]), "replay", v["replay"]], env=ENV, stdout=subprocess.PIPE, stderr=subprocess.PIPE, text=True, timeout=4 * HANG_S)
            except subprocess.TimeoutExpired:
                harness_errors.append(f"replay of {v['replay']} did not finish")
                continue
            if p.returncode == 1 and "REPRODUCED" in p.stdout:
                sig = v.get("signature", "")
                # a finding can also be listed for one specific history: signature#<hash of the
                # generated (unminimised) case>
                hsig = sig + "#" + case_hash(v["replay"][:-len(".json")] + ".full.json")
                hit = [k for k in known if k[0] == prop and k[1] in (sig, hsig)]
                if hit:
                    known_hits.append((sig, hit[0][2]))
                    continue
                os.makedirs(rep_dir, exist_ok=True)
                dst = os.path.join(rep_dir, os.path.basename(v["replay"]))
                shutil.copy(v["replay"], dst)
                confirmed.append((v, dst))
            else:
                harness_errors.append(f"violation at seed {v['seed']} did not reproduce from its replay file ({p.stdout.strip()[-300:]})")
    for w, rc, seedinfo, se, engine in aborts:
        if seedinfo:
            # reproduce the abort in a fresh process from the seed
            os.makedirs(rep_dir, exist_ok=True)
            dst = os.path.join(rep_dir, f"{prop}-{seedinfo[1]}.abort.json")
            if rc == "hang":
                # regenerate the case from its seed (generation only) and confirm the hang by
                # replaying it under a time limit in a fresh process
                p = subprocess.run([sim_bin(engine), "gen", "--prop", prop, "--seed", seedinfo[1], "--tier", tier], env=ENV, stdout=subprocess.PIPE, stderr=subprocess.PIPE, text=True)
                dst = os.path.join(rep_dir, f"{prop}-{seedinfo[1]}.hang.json")
                open(dst, "w").write(p.stdout)
                try:
                    subprocess.run([sim_bin(engine), "replay", dst], env=ENV, stdout=subprocess.PIPE, stderr=subprocess.PIPE, text=True, timeout=HANG_S)
                    harness_errors.append(f"worker {w} was killed as hung at seed {seedinfo[1]} but the seed terminates when replayed alone")
                except subprocess.TimeoutExpired:
                    sig = f"{prop}|hang"
                    hsig = sig + "#" + case_hash(dst)
                    hit = [k for k in known if k[0] == prop and k[1] in (sig, hsig)]
                    if hit:
                        known_hits.append((hit[0][1], hit[0][2]))
                        os.remove(dst)
                    else:
                        confirmed.append(({"seed": int(seedinfo[1]), "classes": ["hang"], "detail": f"the run neither finished nor reached a scheduling point within {HANG_S:.0f}s (worker killed; replay hangs as well) [case {hsig}]", "signature": sig}, dst))
                continue
            p = subprocess.run([sim_bin(engine), "show", "--prop", prop, "--seed", seedinfo[1], "--tier", tier], env=ENV, stdout=subprocess.PIPE, stderr=subprocess.PIPE, text=True)
            if p.stdout.strip().startswith("{"):
                open(dst, "w").write(p.stdout)
            if p.returncode not in (0,):
                confirmed.append(({"seed": int(seedinfo[1]), "classes": ["process_abort"], "detail": f"worker aborted (rc={rc}): {se[-300:]}", "signature": f"{prop}|process_abort"}, dst))
            else:
                # the seed does not abort alone: the process state was damaged by an earlier run of
                # the same worker (memory corruption surfaces late). The worker is a deterministic
                # function of its seed range, so replay the range up to and including that seed.
                rg = WORKER_CMDS.get((engine, w))
                n = int(seedinfo[1]) - (seed << 20)
                rrc = None
                if rg and rg["frm"] <= n < rg["to"]:
                    rg = dict(rg, to=n + 1, kind="range")
                    rrc = replay_range(rg, 20 * HANG_S)
                if rrc not in (None, 0):
                    # minimise: drop seeds from the front of the range while it still aborts
                    step, tries = (rg["to"] - rg["frm"]) // 2, 0
                    while step >= 1 and tries < 14:
                        cand = dict(rg, frm=rg["frm"] + step)
                        tries += 1
                        if cand["frm"] < cand["to"] and replay_range(cand, 20 * HANG_S) not in (None, 0):
                            rg = cand
                            step = min(step, (rg["to"] - rg["frm"]) // 2)
                        else:
                            step //= 2
                    dst = os.path.join(rep_dir, f"{prop}-{rg['frm']}-{rg['to']}.range.json")
                    json.dump(rg, open(dst, "w"))
                    confirmed.append(({"seed": int(seedinfo[1]), "classes": ["process_abort_cumulative"], "detail": f"worker aborted (rc={rc}) at seed {seedinfo[1]}; the seed alone terminates, re-running the worker's seed range {rg['frm']}..{rg['to']} in a fresh process aborts again (rc={rrc}): process state damaged by an earlier run. {se[-200:]}", "signature": f"{prop}|process_abort_cumulative"}, dst))
                else:
                    harness_errors.append(f"worker {w} aborted (rc={rc}) at seed {seedinfo[1]} but neither the seed alone nor the worker's seed range aborts when replayed: {se[-300:]}")
        else:
            harness_errors.append(f"worker {w} failed rc={rc}: {se[-500:]}")

    if miri:
        for u in miri["ub"]:
            os.makedirs(rep_dir, exist_ok=True)
            dst = os.path.join(rep_dir, f"{prop}-miri-{u['prop']}-{u['seed']}.json")
            g = subprocess.run([sim_bin("e1"), "gen", "--prop", u["prop"], "--seed", str(u["seed"]), "--tier", "quick"], env=ENV, stdout=subprocess.PIPE, text=True)
            open(dst, "w").write(g.stdout)
            confirmed.append(({"seed": u["seed"], "classes": ["miri_" + u["kind"].replace(" ", "_").lower()], "detail": f"Miri reported {u['kind']} while running class {u['prop']} seed {u['seed']}: {u['tail'][-300:]}", "signature": f"{prop}|miri"}, dst))
    wall = time.time() - t0
    fault_kinds = {k: v for k, v in stats.items() if k.startswith("fault_") or k.startswith("faults_") or k.startswith("disturb_")}
    probes = {k: v for k, v in stats.items() if not k.startswith("runs_with_")}
    evidence = {
        "property_id": prop,
        "tier": tier,
        "seed": seed,
        "level": cfg["level"],
        "coverage": {
            "evaluations": runs,
            "distinct_nontrivial": len(nontrivial),
            "distinct_cases": len(distinct),
            "rule": " || ".join(f"[{p['engine']}] " + rule_of(p["engine"], prop) for p in parts),
            "samples": samples,
            "simulated_steps": steps,
            "simulated_revisions": revisions,
            "runs_per_hour": int(runs / max(wall, 1e-9) * 3600),
            "run_classes": classes,
            "fault_kinds_fired": fault_kinds,
            "probes": probes,
            "runs_reaching_probe": {k[len("runs_with_"):]: v for k, v in stats.items() if k.startswith("runs_with_")},
            "determinism_selfcheck_runs": sum(r["selfcheck_runs"] for r in results),
            "components": {p["engine"]: COMPONENTS.get(p["engine"], {}) for p in parts},
            "engine": "+".join(p["engine"] for p in parts),
            "workers": NPROC,
            "known_findings_hit": sorted(set(k[0] for k in known_hits)),
            "known_finding_runs": known_hit_counts,
            "miri_sample": ({"runs_under_miri": miri["runs"], "classes": miri["classes"], "errors": len(miri["ub"])} if miri else None),
        },
        "assumptions": [
            "the reference interpreter (sim/src/refi.rs) is the specification of from-scratch results",
            "sampling, not enumeration: a clean batch is evidence, not proof",
        ],
        "wall_s": round(wall, 3),
        "violations": len(confirmed),
    }
    os.makedirs(os.path.join(ROOT, "evidence"), exist_ok=True)
    with open(os.path.join(ROOT, "evidence", f"{prop}.json"), "w") as f:
        json.dump(evidence, f, indent=1, sort_keys=True)
    seen = set()
    for sig, desc in known_hits:
        if sig not in seen:
            seen.add(sig)
            print(f"KNOWN-FINDING: property={prop} {desc} [signature {sig}]")
    for v, dst in confirmed[:10]:
        print(f"VIOLATION property={prop} replay={dst}")
        print(f"  seed={v['seed']} classes={','.join(v['classes'])} detail={v.get('detail')}")
    if len(confirmed) > 10:
        print(f"  ... and {len(confirmed) - 10} more confirmed violations (replays under replays/{prop}/)")
    print(f"{prop} {tier}: runs={runs} distinct_nontrivial={len(nontrivial)} steps={steps} revisions={revisions} wall={wall:.1f}s violations={len(confirmed)} known={len(known_hits)} harness_errors={len(harness_errors)}")
    if confirmed:
        sys.exit(1)
    if harness_errors:
        for h in harness_errors[:10]:
            print("HARNESS-ERROR", h)
        sys.exit(2)
    if runs == 0:
        print("HARNESS-ERROR no runs")
        sys.exit(2)
    sys.exit(0)


def rule_of(engine, prop):
    p = subprocess.run([sim_bin(engine), "rule", prop], env=ENV, stdout=subprocess.PIPE, text=True)
    return p.stdout.strip()


TECH = {"e1": "deterministic simulation: seeded single-handle history simulator, reference-model and event-log oracles",
        "e1p": "deterministic simulation: seeded history simulator with snapshot/restore (crash-restart) steps, reference-model oracle",
        "e3": "deterministic simulation: seeded baton scheduler over real threads behind salsa's sync seam, fault injection, reference-model oracle"}


def write_manifest():
    m = json.load(open(os.path.join(ROOT, "MANIFEST.json")))
    checks = []
    for pid in sorted(PROPS):
        c = PROPS[pid]
        checks.append({
            "property_id": pid,
            "quick_cmd": f"python3 vcheck.py {pid} --tier quick",
            "thorough_cmd": f"python3 vcheck.py {pid} --tier thorough",
            "evidence_file": f"evidence/{pid}.json",
            "replay_cmd_template": "python3 vcheck.py --replay {path}",
            "engine": "+".join(p["engine"] for p in parts_of(c)),
            "level_claimed": {"category": c["level"], "text": c["text"], "design_ref": f"DESIGN.md §5 {pid}"},
            "level_note": c["note"],
            "technique": "; ".join(TECH[p["engine"]] for p in parts_of(c)),
        })
    m["checks"] = checks
    claimed = set(PROPS)
    m["not_applicable"] = [x for x in m.get("not_applicable", []) if x["property_id"] not in claimed]
    engines = {}
    for pid, c in PROPS.items():
        for p in parts_of(c):
            engines.setdefault(p["engine"], []).append(pid)
    m["engines"] = [{"name": e, "path": ENGINES[e][0], "serves_properties": sorted(ps), "kind_free_text": TECH[e]} for e, ps in sorted(engines.items())]
    json.dump(m, open(os.path.join(ROOT, "MANIFEST.json"), "w"), indent=1)
    print("MANIFEST.json written:", len(checks), "checks")


def main():
    a = sys.argv[1:]
    if not a:
        print(__doc__)
        sys.exit(2)
    if a[0] == "--manifest":
        write_manifest()
        return
    if a[0] == "--setup":
        for e in sorted(set(p["engine"] for c in PROPS.values() for p in parts_of(c))):
            build(e)
        print("setup ok")
        return
    if a[0] == "--replay":
        c = json.load(open(a[1]))
        if c.get("kind") == "range":
            build(c["engine"])
            rc = replay_range(c, 40 * HANG_S)
            print(("REPRODUCED" if rc not in (None, 0) else "NOT-REPRODUCED") + f" property={c['prop']} classes=process_abort_cumulative rc={rc}")
            sys.exit(1 if rc not in (None, 0) else 0)
        engine = c.get("engine", "e1")
        if engine == "e1" and parts_of(PROPS[c["property"]])[0]["engine"] == "e1p":
            engine = "e1p"
        build(engine)
        p = subprocess.run([sim_bin(engine), "replay", a[1]], env=ENV)
        sys.exit(p.returncode)
    prop = a[0]
    tier = os.environ.get("VERIF_TIER", "quick")
    if "--tier" in a:
        tier = a[a.index("--tier") + 1]
    run_check(prop, tier)


if __name__ == "__main__":
    main()
