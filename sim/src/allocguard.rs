//! C23: quarantining, poisoning global allocator.
//!
//! When enabled, a freed block is filled with a poison pattern and parked in a bounded
//! quarantine instead of being returned to the system allocator: a read after free sees poison
//! (and shows up as a wrong value or a revalidation failure of a held reference), a write after
//! free is detected when the block leaves quarantine (pattern damaged), a second free of a
//! quarantined block is a double free. Live bytes are accounted for the leak oracle.
//! Everything here is allocation-free (static arrays, atomics, a spin lock).

use std::alloc::{GlobalAlloc, Layout, System};
use std::sync::atomic::{AtomicBool, AtomicI64, AtomicU64, AtomicUsize, Ordering::SeqCst};

pub const POISON: u8 = 0xDE;
const QCAP: usize = 1 << 14;
const MAX_QBYTES: usize = 64 << 20;

pub static ENABLED: AtomicBool = AtomicBool::new(false);
pub static LIVE_BYTES: AtomicI64 = AtomicI64::new(0);
pub static LIVE_BLOCKS: AtomicI64 = AtomicI64::new(0);
pub static WRITE_AFTER_FREE: AtomicU64 = AtomicU64::new(0);
pub static DOUBLE_FREE: AtomicU64 = AtomicU64::new(0);
pub static QUARANTINED: AtomicU64 = AtomicU64::new(0);
pub static RELEASED: AtomicU64 = AtomicU64::new(0);

#[derive(Clone, Copy)]
struct Slot {
    ptr: usize,
    size: usize,
    align: usize,
}

struct Quarantine {
    lock: AtomicBool,
    head: AtomicUsize,
    len: AtomicUsize,
    bytes: AtomicUsize,
    slots: std::cell::UnsafeCell<[Slot; QCAP]>,
}
// SAFETY: `slots` is only touched while `lock` is held.
unsafe impl Sync for Quarantine {}

static Q: Quarantine = Quarantine {
    lock: AtomicBool::new(false),
    head: AtomicUsize::new(0),
    len: AtomicUsize::new(0),
    bytes: AtomicUsize::new(0),
    slots: std::cell::UnsafeCell::new([Slot { ptr: 0, size: 0, align: 1 }; QCAP]),
};

fn lock() {
    while Q.lock.compare_exchange_weak(false, true, SeqCst, SeqCst).is_err() {
        std::hint::spin_loop();
    }
}
fn unlock() {
    Q.lock.store(false, SeqCst);
}

/// release the oldest quarantined block: check the poison pattern, then really free it
unsafe fn release_oldest() {
    let slots = unsafe { &mut *Q.slots.get() };
    let h = Q.head.load(SeqCst);
    let s = slots[h];
    Q.head.store((h + 1) % QCAP, SeqCst);
    Q.len.fetch_sub(1, SeqCst);
    Q.bytes.fetch_sub(s.size, SeqCst);
    let p = s.ptr as *mut u8;
    let mut damaged = false;
    for i in 0..s.size {
        if unsafe { *p.add(i) } != POISON {
            damaged = true;
            break;
        }
    }
    if damaged {
        WRITE_AFTER_FREE.fetch_add(1, SeqCst);
    }
    RELEASED.fetch_add(1, SeqCst);
    unsafe { System.dealloc(p, Layout::from_size_align_unchecked(s.size, s.align)) };
}

pub struct Guard;

unsafe impl GlobalAlloc for Guard {
    unsafe fn alloc(&self, layout: Layout) -> *mut u8 {
        let p = unsafe { System.alloc(layout) };
        if !p.is_null() && ENABLED.load(SeqCst) {
            LIVE_BYTES.fetch_add(layout.size() as i64, SeqCst);
            LIVE_BLOCKS.fetch_add(1, SeqCst);
        }
        p
    }
    unsafe fn alloc_zeroed(&self, layout: Layout) -> *mut u8 {
        let p = unsafe { System.alloc_zeroed(layout) };
        if !p.is_null() && ENABLED.load(SeqCst) {
            LIVE_BYTES.fetch_add(layout.size() as i64, SeqCst);
            LIVE_BLOCKS.fetch_add(1, SeqCst);
        }
        p
    }
    unsafe fn realloc(&self, ptr: *mut u8, layout: Layout, new_size: usize) -> *mut u8 {
        if !ENABLED.load(SeqCst) {
            return unsafe { System.realloc(ptr, layout, new_size) };
        }
        // never reuse in place: allocate, copy, quarantine the old block
        let new_layout = unsafe { Layout::from_size_align_unchecked(new_size, layout.align()) };
        let np = unsafe { self.alloc(new_layout) };
        if !np.is_null() {
            unsafe { std::ptr::copy_nonoverlapping(ptr, np, layout.size().min(new_size)) };
            unsafe { self.dealloc(ptr, layout) };
        }
        np
    }
    unsafe fn dealloc(&self, ptr: *mut u8, layout: Layout) {
        if !ENABLED.load(SeqCst) {
            return unsafe { System.dealloc(ptr, layout) };
        }
        LIVE_BYTES.fetch_sub(layout.size() as i64, SeqCst);
        LIVE_BLOCKS.fetch_sub(1, SeqCst);
        if layout.size() == 0 || layout.size() > (8 << 20) {
            return unsafe { System.dealloc(ptr, layout) };
        }
        lock();
        let slots = unsafe { &mut *Q.slots.get() };
        // double free: the block is still in quarantine
        let (h, n) = (Q.head.load(SeqCst), Q.len.load(SeqCst));
        // (bounded scan of the most recent entries keeps this cheap)
        let scan = n.min(256);
        for k in 0..scan {
            let i = (h + n - 1 - k) % QCAP;
            if slots[i].ptr == ptr as usize {
                DOUBLE_FREE.fetch_add(1, SeqCst);
                unlock();
                return;
            }
        }
        unsafe { std::ptr::write_bytes(ptr, POISON, layout.size()) };
        while Q.len.load(SeqCst) >= QCAP || Q.bytes.load(SeqCst) + layout.size() > MAX_QBYTES {
            unsafe { release_oldest() };
        }
        let n = Q.len.load(SeqCst);
        let i = (Q.head.load(SeqCst) + n) % QCAP;
        slots[i] = Slot { ptr: ptr as usize, size: layout.size(), align: layout.align() };
        Q.len.store(n + 1, SeqCst);
        Q.bytes.fetch_add(layout.size(), SeqCst);
        QUARANTINED.fetch_add(1, SeqCst);
        unlock();
    }
}

/// empty the quarantine (checks every block's pattern)
pub fn flush() {
    lock();
    while Q.len.load(SeqCst) > 0 {
        unsafe { release_oldest() };
    }
    unlock();
}

pub fn enable(on: bool) {
    if !on {
        flush();
    }
    ENABLED.store(on, SeqCst);
}

pub fn counters() -> (u64, u64, i64, i64, u64) {
    (WRITE_AFTER_FREE.load(SeqCst), DOUBLE_FREE.load(SeqCst), LIVE_BYTES.load(SeqCst), LIVE_BLOCKS.load(SeqCst), QUARANTINED.load(SeqCst))
}
