//! C19: independent executable model of the claim / wait / transfer protocol, replayed over
//! the trace recorded from the real implementation (hook `salsa::verif::TraceOp`).
//!
//! Checked: a thread that waits is woken exactly once and resumes with exactly that result; no
//! wake-up is delivered to a thread that is not waiting; the thread wait-for graph (with edges
//! re-pointed by lock transfers) is acyclic after every insertion and re-pointing; every wake-up
//! result is justified by the release that caused it (Completed after a normal release or an
//! ownership hand-over, Panicked / Cancelled after a release with that outcome); at quiescence
//! nothing is left waiting.

use crate::case::RunOut;
use salsa::verif::TraceOp;
use std::collections::HashMap;

pub fn check_protocol(trace: &[TraceOp], out: &mut RunOut) {
    // waiting thread -> (thread it waits for, key)
    let mut edges: HashMap<String, (String, String)> = HashMap::new();
    // woken but not yet resumed: thread -> result
    let mut pending: HashMap<String, String> = HashMap::new();
    // last release / transfer performed by each thread
    let mut last_release: HashMap<String, String> = HashMap::new();
    let mut last_transfer_by: HashMap<String, usize> = HashMap::new();
    // threads that are unwinding from a genuine user panic (between the harness markers)
    let mut unwinding_panic: HashMap<String, bool> = HashMap::new();
    // per thread: stack of executing bodies (true = fixpoint function), reader index, cancelled?
    let mut stacks: HashMap<String, Vec<bool>> = HashMap::new();
    let mut reader_thread: HashMap<String, String> = HashMap::new();
    let mut cancelled: HashMap<String, bool> = HashMap::new();
    // local cancellation must not be lost: after `cancel()` has returned, the handle may enter at
    // most `slack` further bodies outside fixpoint execution before its outermost call ends
    let mut cancel_effective: HashMap<String, u32> = HashMap::new();
    let mut in_request: HashMap<String, bool> = HashMap::new();
    let mut iterating: HashMap<String, bool> = HashMap::new();
    let mut on_clone: HashMap<String, bool> = HashMap::new();
    let mut must_unwind: HashMap<String, bool> = HashMap::new();
    let depends_on = |edges: &HashMap<String, (String, String)>, from: &str, to: &str| -> bool {
        let mut p = from.to_string();
        let mut n = 0;
        while let Some((q, _)) = edges.get(&p) {
            if q == to {
                return true;
            }
            p = q.clone();
            n += 1;
            if n > edges.len() + 1 {
                return true; // a cycle among other threads
            }
        }
        false
    };
    for (i, op) in trace.iter().enumerate() {
        match op {
            TraceOp::AddEdge { from, to, key, .. } => {
                out.bump("proto_waits");
                if edges.contains_key(from) {
                    out.viol("proto_double_wait", i, format!("{from} starts waiting for {key} while it already waits"));
                }
                if pending.contains_key(from) {
                    out.viol("proto_wait_with_pending_result", i, format!("{from} starts waiting while an undelivered wake-up exists"));
                }
                if from == to || depends_on(&edges, to, from) {
                    out.viol("proto_wait_cycle", i, format!("{from} -> {to} (for {key}) closes a cycle of waiting threads"));
                }
                edges.insert(from.clone(), (to.clone(), key.clone()));
            }
            TraceOp::Repoint { thread, to, .. } => {
                out.bump("proto_repoints");
                match edges.get_mut(thread) {
                    Some(e) => e.0 = to.clone(),
                    None => out.viol("proto_repoint_of_non_waiter", i, format!("edge of {thread} re-pointed to {to} but {thread} is not waiting")),
                }
                if thread == to || depends_on(&edges, to, thread) {
                    out.viol("proto_wait_cycle", i, format!("re-pointing {thread} -> {to} closes a cycle of waiting threads"));
                }
            }
            TraceOp::Unblock { by, thread, result } => {
                out.bump("proto_wakeups");
                if edges.remove(thread).is_none() {
                    out.viol("proto_wakeup_of_non_waiter", i, format!("{thread} woken with {result} but it is not waiting"));
                }
                if pending.insert(thread.clone(), result.clone()).is_some() {
                    out.viol("proto_double_wakeup", i, format!("{thread} woken twice before it resumed"));
                }
                // justification: the waker's most recent release has the same outcome, or (Completed
                // only) the wake-up is the hand-over of a transferred lock to the waiting thread
                let just = match last_release.get(by) {
                    Some(r) if r == result => true,
                    _ => result == "Completed" && last_transfer_by.contains_key(by),
                };
                if !just {
                    out.viol("proto_unjustified_wakeup", i, format!("{thread} woken by {by} with {result}; last release by {by}: {:?}", last_release.get(by)));
                }
            }
            TraceOp::Resumed { thread, result } => match pending.remove(thread) {
                Some(r) if &r == result => out.bump("proto_resumes"),
                Some(r) => out.viol("proto_wrong_result", i, format!("{thread} was woken with {r} but resumed with {result}")),
                None => out.viol("proto_resume_without_wakeup", i, format!("{thread} resumed with {result} without having been woken")),
            },
            TraceOp::Release { by, result, key } => {
                // outcome must correspond to how the computation ended: a claim released while
                // its thread unwinds from a user panic is reported as Panicked
                if unwinding_panic.get(by).copied().unwrap_or(false) {
                    out.bump("proto_releases_while_panicking");
                    // the claim released now belongs to the innermost body still on the stack
                    let st = stacks.entry(by.clone()).or_default();
                    st.pop();
                    let inside_fixpoint = st.iter().any(|f| *f);
                    let cancel_pending = cancelled.get(by).copied().unwrap_or(false);
                    // a pending, non-deferred local cancellation legitimately turns the outcome into
                    // Cancelled; inside fixpoint execution cancellation is deferred, so a user panic
                    // there must be reported as Panicked
                    let must_be_panicked = !cancel_pending || inside_fixpoint;
                    if must_be_panicked && result != "Panicked" {
                        out.viol("proto_wrong_release_outcome", i, format!("{by} released {key} with {result} while unwinding from a user panic (cancel pending: {cancel_pending}, inside fixpoint: {inside_fixpoint}): waiters must see Panicked"));
                    }
                }
                last_release.insert(by.clone(), result.clone());
            }
            TraceOp::Mark { by, what } => {
                match what.as_str() {
                    "user_panic" => {
                        unwinding_panic.insert(by.clone(), true);
                    }
                    "check" => {
                        // a cancellation check made after cancel() returned, outside fixpoint
                        // execution and on the handle's own token, must unwind
                        let st = stacks.entry(by.clone()).or_default();
                        let inside_fixpoint = st.iter().any(|f| *f);
                        if must_unwind.get(by).copied().unwrap_or(false) {
                            out.viol("local_cancellation_lost", i, format!("{by} makes another tracked-function request although cancel() on its token had returned before its previous request outside fixpoint iteration"));
                            must_unwind.remove(by);
                            cancel_effective.remove(by);
                        } else if cancel_effective.contains_key(by) && !inside_fixpoint && !on_clone.get(by).copied().unwrap_or(false) && in_request.get(by).copied().unwrap_or(false) {
                            must_unwind.insert(by.clone(), true);
                            out.bump("proto_cancel_checks_expected_to_unwind");
                        }
                    }
                    "iterate" => {
                        iterating.insert(by.clone(), true);
                    }
                    "enter:fix" | "enter:other" => {
                        let st = stacks.entry(by.clone()).or_default();
                        // the next iteration of a cycle head is still fixpoint iteration
                        let continuing = iterating.remove(by).unwrap_or(false);
                        let inside_fixpoint = continuing || st.iter().any(|f| *f);
                        if must_unwind.get(by).copied().unwrap_or(false) {
                            out.viol("local_cancellation_lost", i, format!("{by} executes a tracked function although cancel() on its token had returned before its last cancellation check outside fixpoint iteration"));
                            must_unwind.remove(by);
                            cancel_effective.remove(by);
                        }
                        let _ = inside_fixpoint;
                        st.push(what == "enter:fix");
                    }
                    "request_start" => {
                        in_request.insert(by.clone(), true);
                    }
                    "request_start:clone" => {
                        // runs on a clone of the handle, which has its own token
                        on_clone.insert(by.clone(), true);
                    }
                    "exit" => {
                        let st = stacks.entry(by.clone()).or_default();
                        st.pop();
                        if st.is_empty() {
                            // the outermost call returns: the token is reset
                            cancel_effective.remove(by);
                            must_unwind.remove(by);
                        }
                    }
                    "request_end" => {
                        in_request.insert(by.clone(), false);
                        if !on_clone.remove(by).unwrap_or(false) {
                            cancel_effective.remove(by);
                            must_unwind.remove(by);
                        }
                        unwinding_panic.insert(by.clone(), false);
                        stacks.remove(by);
                        // the token is reset when the outermost call returns or unwinds
                        cancelled.insert(by.clone(), false);
                    }
                    w if w.starts_with("reader_start:") => {
                        reader_thread.insert(w["reader_start:".len()..].to_string(), by.clone());
                        unwinding_panic.insert(by.clone(), false);
                        stacks.remove(by);
                        cancelled.insert(by.clone(), false);
                    }
                    w if w.starts_with("cancelled:") => {
                        if let Some(t) = reader_thread.get(&w["cancelled:".len()..]) {
                            // only cancels that arrive while the handle is inside a tracked function
                            // body are followed: between two outermost calls any attach scope that
                            // ends (a field getter, for instance) resets the token, and the harness
                            // cannot see those
                            if stacks.get(t).is_some_and(|s| !s.is_empty()) {
                                cancel_effective.insert(t.clone(), 0);
                            }
                            out.bump("proto_cancels_tracked");
                        }
                    }
                    w if w.starts_with("cancel:") => {
                        if let Some(t) = reader_thread.get(&w["cancel:".len()..]) {
                            cancelled.insert(t.clone(), true);
                        }
                    }
                    _ => {}
                }
            }
            TraceOp::Transfer { by, .. } => {
                out.bump("proto_transfers");
                last_transfer_by.insert(by.clone(), i);
            }
        }
    }
    if !edges.is_empty() {
        out.viol("proto_left_waiting", trace.len(), format!("at quiescence still waiting: {edges:?}"));
    }
    if !pending.is_empty() {
        out.viol("proto_undelivered_wakeup", trace.len(), format!("at quiescence undelivered: {pending:?}"));
    }
}
