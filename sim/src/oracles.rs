//! Property-specific oracles evaluated over the event/probe log while an E1 run proceeds.

use crate::case::*;
use crate::db::*;
use crate::e1::*;
use crate::prog::*;
use crate::refi::{Eval, World};
use std::panic::{AssertUnwindSafe, catch_unwind};

#[derive(Clone, Debug, Default)]
pub struct StepInfo {
    pub kind: &'static str,
    pub node: Option<(usize, u32)>,
    pub ok: bool,
    pub injected: bool,
    pub expected_panic: bool,
    pub wrote: Option<(usize, usize)>,
    pub dur: Option<Dur>,
    pub ext_cell: Option<usize>,
    pub lru_cap: Option<usize>,
    pub new_revision: bool,
}

impl StepInfo {
    pub fn query(n: usize, arg: u32) -> Self {
        StepInfo { kind: "query", node: Some((n, arg)), ..Default::default() }
    }
    pub fn write(f: Option<(usize, usize)>, d: Option<Dur>) -> Self {
        StepInfo { kind: "write", wrote: f, dur: d, new_revision: true, ..Default::default() }
    }
    pub fn other(kind: &'static str) -> Self {
        StepInfo { kind, ..Default::default() }
    }
}

pub trait Oracle {
    fn before_mut(&mut self, _db: &SimDatabase, _step: usize, _out: &mut RunOut) {}
    fn after_step(&mut self, _db: &SimDatabase, _world: &World, _step: usize, _info: &StepInfo, _evs: &[Ev], _out: &mut RunOut) {}
    fn at_end(&mut self, db: Option<SimDatabase>, _world: &World, _out: &mut RunOut) {
        drop(db);
    }
}

pub struct NoOracle;
impl Oracle for NoOracle {}

/// C12/C13/C15: iteration bound and reach probes for cyclic programs.
#[derive(Default)]
pub struct CycleOracle {
    pub max_iter: u64,
}
impl Oracle for CycleOracle {
    fn after_step(&mut self, _db: &SimDatabase, _world: &World, step: usize, _info: &StepInfo, evs: &[Ev], out: &mut RunOut) {
        let mut heads = std::collections::BTreeSet::new();
        for e in evs {
            match e {
                Ev::Salsa { k: SK::WillIterateCycle, id, x, .. } => {
                    out.bump("cycle_iterations");
                    heads.insert(*id);
                    if *x > 200 {
                        out.viol("iteration_bound_exceeded", step, format!("WillIterateCycle iteration {x} > 200"));
                    }
                    if *x > self.max_iter {
                        self.max_iter = *x;
                    }
                }
                Ev::Salsa { k: SK::DidFinalizeCycle, .. } => out.bump("cycles_finalized"),
                _ => {}
            }
        }
        if heads.len() > 1 {
            out.bump("steps_with_several_cycle_heads");
        }
    }
    fn at_end(&mut self, db: Option<SimDatabase>, _world: &World, out: &mut RunOut) {
        out.add("max_cycle_iteration", self.max_iter);
        drop(db);
    }
}

pub fn for_case(case: &Case) -> Box<dyn Oracle> {
    use crate::reuse::{Modes, ReuseOracle};
    match case.property.as_str() {
        "C03" => Box::new(ReuseOracle::new(case, Modes { justify: true, ..Default::default() })),
        "C04" => Box::new(ReuseOracle::new(case, Modes { justify: true, untracked_rule: true, ..Default::default() })),
        // colliding identity hashes (hash_mod = 1): salsa identifies a struct by (hash, disambiguator),
        // so a struct with another identity legitimately takes over the slot (new generation, memos
        // cleared) without a discard event; the event-based identity oracle is off there and the
        // value oracle + identity-field read-back decide
        "C06" if case.knobs.hash_mod == 1 => Box::new(ReuseOracle::new(case, Modes { justify: true, ..Default::default() })),
        "C06" => Box::new(ReuseOracle::new(case, Modes { justify: true, ts_identity: true, ..Default::default() })),
        "C05" => Box::new(ReuseOracle::new(case, Modes { justify: true, lru: true, ..Default::default() })),
        "C12" | "C13" | "C14" | "C15" => Box::new(CycleOracle::default()),
        "C26" => Box::new(ReuseOracle::new(case, Modes { justify: true, ..Default::default() })),
        "C08" | "C09" => Box::new(ReuseOracle::new(case, Modes { justify: true, intern: true, ..Default::default() })),
        "C07" => Box::new(crate::alias::AliasOracle { inner: Some(Box::new(ReuseOracle::new(case, Modes { justify: true, ..Default::default() }))), ..Default::default() }),
        _ => Box::new(NoOracle),
    }
}

/// `f::accumulated::<Acc>(db, key)` vs the reference DFS.
pub fn accumulated_step(e: &mut E1, n: usize, arg: u32) {
    let prog = &e.case.prog;
    let step = e.step;
    let kind = prog.nodes[n].kind;
    let mut ev = Eval::new(prog, &e.world);
    ev.eval_node(n, arg);
    let key = ev.node_key(n, arg);
    let exp = ev.accumulated(&key);
    let aborted = ev.abort.is_some();
    let db = e.db.as_ref().unwrap();
    let k = db.shared.key(n);
    let got = catch_unwind(AssertUnwindSafe(|| -> Option<Vec<u32>> {
        let v: Vec<&Acc> = match kind {
            Kind::Plain => q_plain::accumulated::<Acc>(db, k),
            Kind::NoEq => q_noeq::accumulated::<Acc>(db, k),
            Kind::Lru => q_lru::accumulated::<Acc>(db, k),
            Kind::Multi => q_multi::accumulated::<Acc>(db, k, arg % prog.m),
            Kind::Mk => q_mk::accumulated::<Acc>(db, k),
            Kind::Ref => q_ref::accumulated::<Acc>(db, k),
            Kind::Zero => q_zero::accumulated::<Acc>(db),
            _ => return None,
        };
        Some(v.into_iter().map(|a| a.0).collect())
    }));
    let mut info = StepInfo::other("accumulated");
    info.node = Some((n, arg));
    match got {
        Ok(None) => {}
        Ok(Some(g)) => {
            e.out.digest = crate::rng::hash_str(e.out.digest, &format!("{g:?}"));
            if aborted {
                e.out.viol("missing_panic", step, format!("accumulated({n}) returned {g:?} but the reference aborts"));
            } else if g != exp {
                e.out.viol("accumulated_mismatch", step, format!("accumulated({n},{arg}): expected {exp:?} got {g:?}"));
            } else {
                info.ok = true;
                if !g.is_empty() {
                    e.out.bump("accumulated_nonempty");
                }
            }
        }
        Err(p) => match panic_kind(&p) {
            PK::Injected(..) => {
                info.injected = true;
                e.injected_now = true;
                e.out.bump("fault_panic_reached_caller")
            }
            pk if aborted => {
                let _ = pk;
                info.expected_panic = true;
            }
            PK::Msg(m) if e.last_fault_cb == Some(Cb::Event) && (m.contains("cannot delete read-locked id") || m.contains("cannot delete write-locked id")) => {
                // recorded finding (C22), seen through an accumulated() request: an event-callback
                // panic during stale-output deletion left the old memo with already-deleted outputs
                e.out.viol("stale_output_discard_interrupted", step, format!("accumulated({n}): after a panic in the event callback during stale-output deletion the retry fails: {m}"));
                e.stop_run = true;
            }
            pk => e.out.viol("unexpected_panic", step, format!("accumulated({n}) panicked: {pk:?}")),
        },
    }
    let evs = e.db.as_ref().unwrap().shared.take_log();
    let db = e.db.as_ref().unwrap();
    e.oracles.after_step(db, &e.world, step, &info, &evs, &mut e.out);
}

pub fn special_step(e: &mut E1, st: Step) {
    match st {
        Step::SnapshotRestore => snapshot_restore(e),
        Step::Hold { n } => e.hold_ref(n as usize),
        _ => {}
    }
}

#[cfg(not(feature = "persistence"))]
fn snapshot_restore(_e: &mut E1) {}

#[cfg(feature = "persistence")]
fn snapshot_restore(e: &mut E1) {
    let step = e.step;
    let shared = e.db.as_ref().unwrap().shared.clone();
    let mut old = e.db.take().unwrap();
    let snap = catch_unwind(AssertUnwindSafe(|| old.snapshot()));
    let json = match snap {
        Ok(j) => j,
        Err(p) => {
            let pk = panic_kind(&p);
            if matches!(&pk, PK::Msg(m) if m.contains("write lock taken")) {
                // recorded finding (C26): a tracked struct deleted in the current revision stays
                // write-locked; serialization takes every struct's read lock and panics on it
                e.out.viol("snapshot_with_deleted_struct_panics", step, format!("serializing the database panicked: {pk:?}"));
                e.stop_run = true;
            } else {
                e.out.viol("snapshot_panicked", step, format!("serializing the database panicked: {pk:?}"));
            }
            e.db = Some(old);
            return;
        }
    };
    e.out.add("snapshot_bytes", json.len() as u64);
    let restored = catch_unwind(AssertUnwindSafe(|| SimDatabase::restore(shared, &json)));
    match restored {
        Ok(db) => {
            drop(old);
            e.db = Some(db);
            e.out.bump("restores");
        }
        Err(p) => {
            let pk = panic_kind(&p);
            let class = match &pk {
                PK::Msg(m) if m.contains("values are serialized in allocation order") => "restore_allocation_order_panic",
                _ => "restore_panicked",
            };
            e.out.viol(class, step, format!("deserializing into a fresh database panicked: {pk:?}"));
            e.db = Some(old);
            e.stop_run = true;
            return;
        }
    }
    let evs = e.db.as_ref().unwrap().shared.take_log();
    let db = e.db.as_ref().unwrap();
    let info = StepInfo::other("restore");
    e.oracles.after_step(db, &e.world, step, &info, &evs, &mut e.out);
}
