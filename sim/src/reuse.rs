//! Reuse / re-execution oracles over the event + probe log (C03, C04, C06).
//!
//! The model is deliberately one-sided: wherever it cannot decide exactly (durability of values
//! that flow through interned values, LRU functions, multi-argument key interning) it treats an
//! execution as justified. It can therefore miss some lost reuse but cannot flag a legitimate
//! execution.

use crate::case::*;
use crate::db::*;
use crate::oracles::{Oracle, StepInfo};
use crate::prog::*;
use crate::refi::{Eval, QKey, World};
use std::collections::{BTreeMap, BTreeSet, HashMap};

#[derive(Clone, Debug, PartialEq, Eq, Hash, PartialOrd, Ord)]
pub enum LKey {
    Node(usize, u32),
    OnTs(usize, u64),
    OnIt(usize, u64),
}

#[derive(Clone, Debug, PartialEq)]
enum Read {
    In(usize, usize),
    Call(LKey),
    Ts { id: u64, f: usize },
    It { id: u64 },
}

#[derive(Clone, Debug)]
struct ExecRec {
    t: u64,
    full: u64,
    /// 0 low .. 3 never; None = not modelled
    dur: Option<u8>,
    /// no previous live memo (first execution, or the key was discarded in between)
    fresh: bool,
    rev: u64,
}

#[derive(Clone, Debug)]
struct Rec {
    kind: Kind,
    reads: Vec<Read>,
    untracked: bool,
    validated_at: u64,
    hist: Vec<ExecRec>,
    alive: bool,
    /// (ident, occurrence) -> struct id, of the latest execution
    created: BTreeMap<(u32, u32), u64>,
}

#[derive(Clone, Debug)]
struct TsCreate {
    t: u64,
    t0: u32,
    dur: Option<u8>,
}

#[derive(Clone, Debug, Default)]
struct TsInfo {
    creator: Option<LKey>,
    ident: u32,
    occ: u32,
    creates: Vec<TsCreate>,
    discarded_at: Option<u64>,
    live: bool,
}

struct Frame {
    lk: LKey,
    kind: Kind,
    reads: Vec<Read>,
    untracked: bool,
    dur: Option<u8>,
    skey: Option<(u32, u64)>,
    created: BTreeMap<(u32, u32), u64>,
    occ: BTreeMap<u32, u32>,
}

#[derive(Clone, Copy, Default)]
pub struct Modes {
    pub justify: bool,
    pub untracked_rule: bool,
    pub ts_identity: bool,
}

pub struct ReuseOracle {
    modes: Modes,
    prog: Program,
    time: u64,
    rev: u64,
    recs: HashMap<LKey, Rec>,
    skey2lk: HashMap<(u32, u64), LKey>,
    frames: Vec<Frame>,
    pending_we: Option<(u32, u64)>,
    last_write: HashMap<(usize, usize), u64>,
    field_dur: HashMap<(usize, usize), u8>,
    ts: HashMap<u64, TsInfo>,
    /// interned slot index -> times at which the slot was reused for other data
    it_reuse: HashMap<u32, Vec<u64>>,
    any_reuse: Vec<u64>,
    ing_names: HashMap<u32, String>,
    exec_rev: HashMap<LKey, u64>,
    will_execute: u64,
    execs: u64,
    /// structs dropped by a re-executed creator in the current step: must be discarded
    expect_discard: BTreeSet<u64>,
    seen_discard: BTreeSet<(String, u64)>,
}

fn dmin(a: Option<u8>, b: Option<u8>) -> Option<u8> {
    match (a, b) {
        (Some(a), Some(b)) => Some(a.min(b)),
        _ => None,
    }
}

pub fn dur_u8(d: Dur) -> u8 {
    match d {
        Dur::Low => 0,
        Dur::Medium => 1,
        Dur::High => 2,
        Dur::Never => 3,
    }
}

impl ReuseOracle {
    pub fn new(case: &Case, modes: Modes) -> Self {
        ReuseOracle {
            modes,
            prog: case.prog.clone(),
            time: 1,
            rev: 1,
            recs: HashMap::new(),
            skey2lk: HashMap::new(),
            frames: vec![],
            pending_we: None,
            last_write: HashMap::new(),
            field_dur: HashMap::new(),
            ts: HashMap::new(),
            it_reuse: HashMap::new(),
            any_reuse: vec![],
            ing_names: HashMap::new(),
            exec_rev: HashMap::new(),
            will_execute: 0,
            execs: 0,
            expect_discard: BTreeSet::new(),
            seen_discard: BTreeSet::new(),
        }
    }

    fn ing_name(&mut self, db: &SimDatabase, ing: u32) -> String {
        if let Some(n) = self.ing_names.get(&ing) {
            return n.clone();
        }
        let n = salsa::Database::ingredient_debug_name(db, salsa::verif::ingredient_index_from_u32(ing)).to_string();
        self.ing_names.insert(ing, n.clone());
        n
    }

    fn lkey_of(&self, node: usize, id: u64, arg: u32) -> LKey {
        match self.prog.nodes[node].kind {
            Kind::OnTs | Kind::Spec | Kind::POnTs => LKey::OnTs(node, id),
            Kind::OnIt => LKey::OnIt(node, id),
            k if k.is_multi() => LKey::Node(node, arg),
            _ => LKey::Node(node, 0),
        }
    }

    fn cur_dur(&self, lk: &LKey) -> Option<u8> {
        self.recs.get(lk).and_then(|r| r.hist.last()).and_then(|h| h.dur)
    }

    /// did `r` (a read of the previous execution) change after time `t`?
    fn changed_since(&self, r: &Read, t: u64) -> bool {
        match r {
            Read::In(i, f) => self.last_write.get(&(*i, *f)).is_some_and(|w| *w > t),
            Read::Call(lk) => {
                let Some(c) = self.recs.get(lk) else { return true };
                if !c.alive || c.hist.is_empty() {
                    return true;
                }
                if let LKey::Node(n, _) = lk {
                    if self.prog.nodes[*n].kind.is_multi() && self.any_reuse.iter().any(|x| *x > t) {
                        return true;
                    }
                }
                for (i, h) in c.hist.iter().enumerate() {
                    if h.t <= t {
                        continue;
                    }
                    if h.fresh || i == 0 {
                        return true;
                    }
                    if matches!(c.kind, Kind::NoEq | Kind::Lru) {
                        return true;
                    }
                    let p = &c.hist[i - 1];
                    if p.full != h.full {
                        return true;
                    }
                    match (p.dur, h.dur) {
                        (Some(a), Some(b)) if b >= a => {}
                        _ => return true,
                    }
                }
                false
            }
            Read::Ts { id, f } => {
                let Some(s) = self.ts.get(id) else { return true };
                if s.discarded_at.is_some_and(|d| d > t) || !s.live {
                    return true;
                }
                for (i, c) in s.creates.iter().enumerate() {
                    if c.t <= t {
                        continue;
                    }
                    if i == 0 || *f == 2 {
                        return true;
                    }
                    let p = &s.creates[i - 1];
                    if p.t0 != c.t0 {
                        return true;
                    }
                    match (p.dur, c.dur) {
                        (Some(a), Some(b)) if b >= a => {}
                        _ => return true,
                    }
                }
                false
            }
            Read::It { id } => {
                let idx = (*id & 0xFFFF_FFFF) as u32;
                self.it_reuse.get(&idx).is_some_and(|v| v.iter().any(|x| *x > t))
            }
        }
    }

    fn on_exec(&mut self, node: usize, id: u64, arg: u32, step: usize, out: &mut RunOut) {
        self.execs += 1;
        let lk = self.lkey_of(node, id, arg);
        let kind = self.prog.nodes[node].kind;
        let skey = self.pending_we.take();
        if let Some(rec) = self.recs.get(&lk) {
            let exempt = !rec.alive || rec.untracked || matches!(kind, Kind::Lru) || kind.is_cycle_kind() || rec.hist.is_empty();
            if self.modes.justify && !exempt {
                let t = rec.validated_at;
                let why = rec.reads.iter().any(|r| self.changed_since(r, t));
                if why {
                    out.bump("reexec_justified");
                } else {
                    out.viol(
                        "unjustified_reexecution",
                        step,
                        format!("{lk:?} ({kind:?}) re-executed although none of its {} recorded reads changed since it was last validated (t={t}); reads={:?}", rec.reads.len(), rec.reads),
                    );
                }
            }
        } else {
            out.bump("first_execution");
        }
        self.frames.push(Frame { lk, kind, reads: vec![], untracked: false, dur: Some(3), skey, created: BTreeMap::new(), occ: BTreeMap::new() });
    }

    fn on_exec_end(&mut self, full: u64, step: usize, out: &mut RunOut) {
        let Some(fr) = self.frames.pop() else { return };
        let t = self.time;
        let existed_alive = self.recs.get(&fr.lk).is_some_and(|r| r.alive && !r.hist.is_empty());
        // C06: identity stability and discard of dropped structs
        if self.modes.ts_identity {
            if let Some(prev) = self.recs.get(&fr.lk) {
                if existed_alive {
                    for (k, old_id) in &prev.created {
                        match fr.created.get(k) {
                            Some(new_id) if new_id != old_id => out.viol(
                                "ts_identity_changed",
                                step,
                                format!("{:?}: struct (ident {}, occurrence {}) had id {old_id:#x}, now {new_id:#x}", fr.lk, k.0, k.1),
                            ),
                            Some(_) => out.bump("ts_identity_kept"),
                            None => {
                                self.expect_discard.insert(*old_id);
                            }
                        }
                    }
                }
            }
        }
        for (_, id) in &fr.created {
            self.expect_discard.remove(id);
        }
        // structs of the previous execution that were not recreated are dead now
        if let Some(prev) = self.recs.get(&fr.lk) {
            let dead: Vec<u64> = prev.created.values().filter(|id| !fr.created.values().any(|x| x == *id)).copied().collect();
            for id in dead {
                if let Some(s) = self.ts.get_mut(&id) {
                    s.live = false;
                }
            }
        }
        let dur = if fr.untracked { Some(0) } else { fr.dur };
        let rec = self.recs.entry(fr.lk.clone()).or_insert_with(|| Rec { kind: fr.kind, reads: vec![], untracked: false, validated_at: 0, hist: vec![], alive: true, created: BTreeMap::new() });
        rec.hist.push(ExecRec { t, full, dur, fresh: !existed_alive, rev: self.rev });
        if rec.hist.len() > 64 {
            rec.hist.remove(0);
        }
        rec.reads = fr.reads;
        rec.untracked = fr.untracked;
        rec.validated_at = t;
        rec.alive = true;
        rec.created = fr.created;
        if let Some(sk) = fr.skey {
            self.skey2lk.insert(sk, fr.lk.clone());
        }
        self.exec_rev.insert(fr.lk, self.rev);
    }

    fn process(&mut self, db: &SimDatabase, step: usize, evs: &[Ev], out: &mut RunOut) {
        for e in evs {
            self.time += 1;
            match e {
                Ev::Salsa { k: SK::WillExecute, ing, id, .. } => {
                    self.will_execute += 1;
                    self.pending_we = Some((*ing, *id));
                }
                Ev::Salsa { k: SK::DidValidateMemo, ing, id, .. } => {
                    if let Some(lk) = self.skey2lk.get(&(*ing, *id)) {
                        if let Some(r) = self.recs.get_mut(lk) {
                            r.validated_at = self.time;
                        }
                    }
                }
                Ev::Salsa { k: SK::DidReuseInterned, ing, id, .. } => {
                    let name = self.ing_name(db, *ing);
                    let idx = (*id & 0xFFFF_FFFF) as u32;
                    if name.starts_with("It") {
                        self.it_reuse.entry(idx).or_default().push(self.time);
                    } else {
                        self.any_reuse.push(self.time);
                    }
                }
                Ev::Salsa { k: SK::DidDiscard, ing, id, .. } => {
                    let name = self.ing_name(db, *ing);
                    self.seen_discard.insert((name.clone(), *id));
                    if name == "Ts" || name == "TsP" {
                        if let Some(s) = self.ts.get_mut(id) {
                            s.discarded_at = Some(self.time);
                            s.live = false;
                        }
                    } else if let Some(lk) = self.skey2lk.get(&(*ing, *id)) {
                        if let Some(r) = self.recs.get_mut(lk) {
                            r.alive = false;
                        }
                    }
                }
                Ev::Exec { node, id, arg } => self.on_exec(*node, *id, *arg, step, out),
                Ev::ExecEnd { full, .. } => self.on_exec_end(*full, step, out),
                Ev::RdIn { i, f } => {
                    let d = self.field_dur.get(&(*i, *f)).copied().unwrap_or(0);
                    if let Some(fr) = self.frames.last_mut() {
                        // NEVER_CHANGE reads are not recorded as dependencies
                        if d < 3 {
                            fr.reads.push(Read::In(*i, *f));
                        }
                        fr.dur = dmin(fr.dur, Some(d));
                    }
                }
                Ev::RdCall { node, arg, .. } => {
                    let kind = self.prog.nodes[*node].kind;
                    let lk = LKey::Node(*node, if kind.is_multi() { *arg } else { 0 });
                    let d = self.cur_dur(&lk);
                    if let Some(fr) = self.frames.last_mut() {
                        fr.reads.push(Read::Call(lk));
                        fr.dur = dmin(fr.dur, d);
                        if kind.is_multi() {
                            fr.dur = None;
                        }
                    }
                }
                Ev::RdOnTs { node, id, .. } => {
                    let lk = LKey::OnTs(*node, *id);
                    let d = self.cur_dur(&lk);
                    if let Some(fr) = self.frames.last_mut() {
                        fr.reads.push(Read::Call(lk));
                        fr.dur = dmin(fr.dur, d);
                    }
                }
                Ev::RdOnIt { node, id, .. } => {
                    let lk = LKey::OnIt(*node, *id);
                    if let Some(fr) = self.frames.last_mut() {
                        fr.reads.push(Read::Call(lk));
                        fr.dur = None;
                    }
                }
                Ev::RdTs { id, f, .. } => {
                    if *f != 0 {
                        let d = self.ts.get(id).and_then(|s| s.creates.last()).and_then(|c| c.dur);
                        if let Some(fr) = self.frames.last_mut() {
                            fr.reads.push(Read::Ts { id: *id, f: *f });
                            fr.dur = dmin(fr.dur, d);
                        }
                    }
                }
                Ev::RdIt { id } => {
                    if let Some(fr) = self.frames.last_mut() {
                        fr.reads.push(Read::It { id: *id });
                        fr.dur = None;
                    }
                }
                Ev::Intern { id, in_query, .. } => {
                    if *in_query {
                        if let Some(fr) = self.frames.last_mut() {
                            fr.reads.push(Read::It { id: *id });
                            fr.dur = None;
                        }
                    }
                }
                Ev::RdUntracked => {
                    if let Some(fr) = self.frames.last_mut() {
                        fr.untracked = true;
                        fr.dur = Some(0);
                    }
                }
                Ev::NewTs { ident, id, t0, .. } => {
                    let t = self.time;
                    let Some(fr) = self.frames.last_mut() else { continue };
                    let occ = fr.occ.entry(*ident).or_insert(0);
                    let key = (*ident, *occ);
                    *occ += 1;
                    fr.created.insert(key, *id);
                    let (lk, dur) = (fr.lk.clone(), fr.dur);
                    if self.modes.ts_identity {
                        if let Some(s) = self.ts.get(id) {
                            if s.live && (s.creator.as_ref() != Some(&lk) || s.ident != key.0 || s.occ != key.1) {
                                out.viol(
                                    "ts_identity_aliased",
                                    step,
                                    format!("struct id {id:#x} given to ({lk:?}, ident {}, occ {}) while live for ({:?}, ident {}, occ {})", key.0, key.1, s.creator, s.ident, s.occ),
                                );
                            }
                        }
                    }
                    let s = self.ts.entry(*id).or_default();
                    if s.creator.as_ref() != Some(&lk) || s.ident != key.0 || s.occ != key.1 {
                        // id (index+generation) now denotes another logical struct
                        s.creates.clear();
                    }
                    s.creator = Some(lk);
                    s.ident = key.0;
                    s.occ = key.1;
                    s.live = true;
                    s.discarded_at = None;
                    s.creates.push(TsCreate { t, t0: *t0, dur });
                    if s.creates.len() > 32 {
                        s.creates.remove(0);
                    }
                }
                _ => {}
            }
        }
    }
}

impl Oracle for ReuseOracle {
    fn after_step(&mut self, db: &SimDatabase, world: &World, step: usize, info: &StepInfo, evs: &[Ev], out: &mut RunOut) {
        if info.new_revision {
            self.rev += 1;
            self.time += 1;
            if let Some((i, f)) = info.wrote {
                self.last_write.insert((i, f), self.time);
                if let Some(d) = info.dur {
                    // a failed write to a frozen field leaves the durability alone
                    if self.field_dur.get(&(i, f)).copied().unwrap_or(0) < 3 {
                        self.field_dur.insert((i, f), dur_u8(d));
                    }
                }
            }
        }
        self.frames.clear();
        self.pending_we = None;
        self.process(db, step, evs, out);
        if info.injected || info.expected_panic {
            // an unwound body leaves open frames: drop them (no record is made)
            self.frames.clear();
            return;
        }
        if self.modes.ts_identity && info.kind == "query" && info.ok {
            // dropped structs must have been discarded by now
            for id in std::mem::take(&mut self.expect_discard) {
                if !self.seen_discard.iter().any(|(n, i)| n == "Ts" && *i == id) {
                    out.viol("ts_not_discarded", step, format!("struct {id:#x} was not recreated by its creator but no DidDiscard was emitted"));
                } else {
                    out.bump("ts_discard_seen");
                }
            }
            // enumeration = live set of the model
            // entries() reports slot ids without the generation: compare slot indices
            let live: BTreeSet<u64> = self.ts.iter().filter(|(_, s)| s.live).map(|(id, _)| *id & 0xFFFF_FFFF).collect();
            let listed: BTreeSet<u64> = crate::db::ts_entries(db).into_iter().map(|id| id & 0xFFFF_FFFF).collect();
            if live != listed {
                out.viol("ts_entries_mismatch", step, format!("entries() lists {listed:x?} but live structs are {live:x?}"));
            }
        }
        if self.modes.untracked_rule && info.kind == "query" && info.ok {
            if let Some((n, arg)) = info.node {
                let mut ev = Eval::new(&self.prog, world);
                ev.eval_node(n, arg);
                let root = ev.node_key(n, arg);
                // transitive callees of the request
                let mut seen = BTreeSet::new();
                let mut stack = vec![root];
                while let Some(k) = stack.pop() {
                    if !seen.insert(k.clone()) {
                        continue;
                    }
                    if let Some(t) = ev.trace.get(&k) {
                        if t.untracked {
                            let lk = match &k {
                                QKey::Node(n) => Some(LKey::Node(*n, 0)),
                                QKey::Multi(n, a) => Some(LKey::Node(*n, *a)),
                                _ => None,
                            };
                            if let Some(lk) = lk {
                                if self.exec_rev.get(&lk) != Some(&self.rev) {
                                    out.viol(
                                        "untracked_not_reexecuted",
                                        step,
                                        format!("{lk:?} read untracked state but did not execute in revision {} although it was needed by the request of node {n}", self.rev),
                                    );
                                } else {
                                    out.bump("untracked_reexecuted_in_revision");
                                }
                            }
                        }
                        stack.extend(t.callees.iter().cloned());
                    }
                }
            }
        }
        if self.will_execute != self.execs && info.ok {
            out.viol("harness_will_execute_mismatch", step, format!("WillExecute events {} != body executions {}", self.will_execute, self.execs));
            self.will_execute = self.execs;
        }
    }
}
