//! Reuse / re-execution oracles over the event + probe log (C03, C04, C06).
//!
//! The model is deliberately one-sided: wherever it cannot decide exactly (durability of values
//! that flow through interned values, LRU functions, multi-argument key interning) it treats an
//! execution as justified. It can therefore miss some lost reuse but cannot flag a legitimate
//! execution.

use crate::case::*;
use crate::db::*;
use crate::oracles::{Oracle, StepInfo};
use crate::prog::*;
use crate::refi::{Eval, QKey, World};
use std::collections::{BTreeMap, BTreeSet, HashMap};

#[derive(Clone, Debug, PartialEq, Eq, Hash, PartialOrd, Ord)]
pub enum LKey {
    Node(usize, u32),
    OnTs(usize, u64),
    OnIt(usize, u64),
}

#[derive(Clone, Debug, PartialEq)]
enum Read {
    In(usize, usize),
    Call(LKey),
    Ts { id: u64, f: usize },
    It { id: u64 },
}

#[derive(Clone, Debug)]
struct ExecRec {
    t: u64,
    full: u64,
    /// 0 low .. 3 never; None = not modelled
    dur: Option<u8>,
    /// no previous live memo (first execution, or the key was discarded in between)
    fresh: bool,
    rev: u64,
}

#[derive(Clone, Debug)]
struct Rec {
    kind: Kind,
    reads: Vec<Read>,
    untracked: bool,
    validated_at: u64,
    hist: Vec<ExecRec>,
    alive: bool,
    /// (ident, occurrence) -> struct id, of the latest execution
    created: BTreeMap<(u32, u32), u64>,
    /// restored from a snapshot with dependencies on non-persisted functions: its edges were
    /// flattened to their base inputs, so equal recomputed values no longer shield it
    coarse: bool,
}

#[derive(Clone, Debug)]
struct TsCreate {
    t: u64,
    t0: u32,
    dur: Option<u8>,
}

#[derive(Clone, Debug, Default)]
struct TsInfo {
    creator: Option<LKey>,
    ident: u32,
    occ: u32,
    creates: Vec<TsCreate>,
    discarded_at: Option<u64>,
    live: bool,
}

struct Frame {
    lk: LKey,
    kind: Kind,
    reads: Vec<Read>,
    untracked: bool,
    dur: Option<u8>,
    skey: Option<(u32, u64)>,
    created: BTreeMap<(u32, u32), u64>,
    occ: BTreeMap<u32, u32>,
}

#[derive(Clone, Copy, Default)]
pub struct Modes {
    pub justify: bool,
    pub untracked_rule: bool,
    pub ts_identity: bool,
    pub lru: bool,
    pub intern: bool,
}

#[derive(Clone, Debug)]
struct Occ {
    t: usize,
    v: u32,
    id: u64,
    last_use: u64,
    /// certainly not reclaimable: interned outside a query or by a query whose durability so
    /// far was certainly above LOW
    durable: bool,
}

/// Retention / canonicity model of the interned types It1, It2, It3, ItInf.
#[derive(Default)]
struct InternModel {
    /// revisions (> 1) with any activity at all: superset of the revisions salsa records as active
    active_upper: Vec<u64>,
    /// per type: revisions with an interning/validation event of that type (subset)
    active_lower: [Vec<u64>; 4],
    slot: HashMap<u32, Occ>,
    val2slot: HashMap<(usize, u32), u32>,
    /// ids for which a DidInternValue / DidReuseInternedValue event was just seen (cold path)
    fresh_ids: BTreeSet<u64>,
}

const IT_REVS: [usize; 4] = [1, 2, 3, usize::MAX];

fn it_type(name: &str) -> Option<usize> {
    match name {
        "It1" => Some(0),
        "It2" => Some(1),
        "It3" => Some(2),
        "ItInf" => Some(3),
        _ => None,
    }
}

/// List model of `Lru` (record_use on every fetch, pop-front eviction at revision start / trigger).
#[derive(Default)]
struct LruModel {
    cap: usize,
    list: Vec<LKey>,
    /// keys whose value the model predicts to be evicted and not yet recomputed
    evicted: BTreeSet<LKey>,
    /// keys predicted to hold a value
    cached: BTreeSet<LKey>,
    /// an evicted key just finished executing: the enclosing operation must be a fetch of it
    pending_fetch: Option<(LKey, usize)>,
    relax: bool,
}

pub struct ReuseOracle {
    modes: Modes,
    /// a snapshot/restore happened earlier in the run
    restored: bool,
    prog: Program,
    time: u64,
    rev: u64,
    recs: HashMap<LKey, Rec>,
    skey2lk: HashMap<(u32, u64), LKey>,
    frames: Vec<Frame>,
    pending_we: Option<(u32, u64)>,
    last_write: HashMap<(usize, usize), u64>,
    field_dur: HashMap<(usize, usize), u8>,
    ts: HashMap<u64, TsInfo>,
    /// interned slot index -> times at which the slot was reused for other data
    it_reuse: HashMap<u32, Vec<u64>>,
    any_reuse: Vec<u64>,
    ing_names: HashMap<u32, String>,
    exec_rev: HashMap<LKey, u64>,
    will_execute: u64,
    execs: u64,
    /// structs dropped by a re-executed creator in the current step: must be discarded
    expect_discard: BTreeSet<u64>,
    seen_discard: BTreeSet<(String, u64)>,
    lru: LruModel,
    im: InternModel,
}

fn dmin(a: Option<u8>, b: Option<u8>) -> Option<u8> {
    match (a, b) {
        (Some(a), Some(b)) => Some(a.min(b)),
        _ => None,
    }
}

pub fn dur_u8(d: Dur) -> u8 {
    match d {
        Dur::Low => 0,
        Dur::Medium => 1,
        Dur::High => 2,
        Dur::Never => 3,
    }
}

impl ReuseOracle {
    pub fn new(case: &Case, modes: Modes) -> Self {
        ReuseOracle {
            modes,
            prog: case.prog.clone(),
            time: 1,
            rev: 1,
            recs: HashMap::new(),
            skey2lk: HashMap::new(),
            frames: vec![],
            pending_we: None,
            last_write: HashMap::new(),
            field_dur: HashMap::new(),
            ts: HashMap::new(),
            it_reuse: HashMap::new(),
            any_reuse: vec![],
            ing_names: HashMap::new(),
            exec_rev: HashMap::new(),
            will_execute: 0,
            execs: 0,
            expect_discard: BTreeSet::new(),
            seen_discard: BTreeSet::new(),
            lru: LruModel { cap: 4, ..Default::default() },
            im: InternModel::default(),
            restored: false,
        }
    }

    fn ing_name(&mut self, db: &SimDatabase, ing: u32) -> String {
        if let Some(n) = self.ing_names.get(&ing) {
            return n.clone();
        }
        let n = salsa::Database::ingredient_debug_name(db, salsa::verif::ingredient_index_from_u32(ing)).to_string();
        self.ing_names.insert(ing, n.clone());
        n
    }

    fn lkey_of(&self, node: usize, id: u64, arg: u32) -> LKey {
        match self.prog.nodes[node].kind {
            Kind::OnTs | Kind::Spec | Kind::POnTs => LKey::OnTs(node, id),
            Kind::OnIt => LKey::OnIt(node, id),
            k if k.is_multi() => LKey::Node(node, arg),
            _ => LKey::Node(node, 0),
        }
    }

    fn cur_dur(&self, lk: &LKey) -> Option<u8> {
        self.recs.get(lk).and_then(|r| r.hist.last()).and_then(|h| h.dur)
    }

    /// did `r` (a read of the previous execution) change after time `t`?
    fn changed_since(&self, r: &Read, t: u64) -> bool {
        match r {
            Read::In(i, f) => self.last_write.get(&(*i, *f)).is_some_and(|w| *w > t),
            Read::Call(lk) => {
                let Some(c) = self.recs.get(lk) else { return true };
                if !c.alive || c.hist.is_empty() || c.kind.is_cycle_kind() {
                    // (cycle members: iteration and dependency flattening are not modelled)
                    return true;
                }
                if let LKey::Node(n, _) = lk {
                    if self.prog.nodes[*n].kind.is_multi() && self.any_reuse.iter().any(|x| *x > t) {
                        return true;
                    }
                }
                // an evicted callee whose own dependencies changed reports "changed" without
                // being recomputed (its old value is gone, so it cannot be compared)
                if ((self.modes.lru && self.lru.evicted.contains(lk)) || (!self.modes.lru && c.kind == Kind::Lru)) && !c.untracked {
                    let tc = c.validated_at;
                    if c.reads.iter().any(|r| self.changed_since(r, tc)) {
                        return true;
                    }
                }
                for (i, h) in c.hist.iter().enumerate() {
                    if h.t <= t {
                        continue;
                    }
                    if h.fresh || i == 0 {
                        return true;
                    }
                    if matches!(c.kind, Kind::NoEq | Kind::Lru) {
                        return true;
                    }
                    let p = &c.hist[i - 1];
                    if p.full != h.full {
                        return true;
                    }
                    match (p.dur, h.dur) {
                        (Some(a), Some(b)) if b >= a => {}
                        _ => return true,
                    }
                }
                false
            }
            Read::Ts { id, f } => {
                let Some(s) = self.ts.get(id) else { return true };
                if s.discarded_at.is_some_and(|d| d > t) || !s.live {
                    return true;
                }
                for (i, c) in s.creates.iter().enumerate() {
                    if c.t <= t {
                        continue;
                    }
                    if i == 0 || *f == 2 {
                        return true;
                    }
                    let p = &s.creates[i - 1];
                    if p.t0 != c.t0 {
                        return true;
                    }
                    match (p.dur, c.dur) {
                        (Some(a), Some(b)) if b >= a => {}
                        _ => return true,
                    }
                }
                false
            }
            Read::It { id } => {
                let idx = (*id & 0xFFFF_FFFF) as u32;
                self.it_reuse.get(&idx).is_some_and(|v| v.iter().any(|x| *x > t))
            }
        }
    }

    fn on_exec(&mut self, node: usize, id: u64, arg: u32, step: usize, out: &mut RunOut) {
        self.execs += 1;
        let lk = self.lkey_of(node, id, arg);
        let kind = self.prog.nodes[node].kind;
        let skey = self.pending_we.take();
        if let Some(rec) = self.recs.get(&lk) {
            let exempt = !rec.alive || rec.coarse || rec.untracked || (matches!(kind, Kind::Lru) && !self.modes.lru) || kind.is_cycle_kind() || rec.hist.is_empty();
            if self.modes.justify && !exempt {
                let t = rec.validated_at;
                let why = rec.reads.iter().any(|r| self.changed_since(r, t)) || (self.modes.lru && self.lru.evicted.contains(&lk));
                if self.modes.lru && self.lru.evicted.contains(&lk) {
                    out.bump("lru_evicted_value_recomputed");
                }
                if why {
                    out.bump("reexec_justified");
                } else if self.restored && rec.reads.iter().any(|x| matches!(x, Read::Ts { .. })) {
                    // recorded finding (C26): serialization stamps every tracked struct as updated in
                    // the snapshot revision, so readers of struct fields re-execute after a restore
                    // although nothing they read changed
                    out.viol("restored_tracked_struct_fields_stale", step, format!("{lk:?} ({kind:?}) re-executed after a restore although its reads did not change; reads={:?}", rec.reads));
                } else {
                    out.viol(
                        "unjustified_reexecution",
                        step,
                        format!("{lk:?} ({kind:?}) re-executed although none of its {} recorded reads changed since it was last validated (t={t}); reads={:?}", rec.reads.len(), rec.reads),
                    );
                }
            }
        } else {
            out.bump("first_execution");
        }
        self.frames.push(Frame { lk, kind, reads: vec![], untracked: false, dur: Some(3), skey, created: BTreeMap::new(), occ: BTreeMap::new() });
    }

    fn on_exec_end(&mut self, full: u64, step: usize, out: &mut RunOut) {
        let Some(fr) = self.frames.pop() else { return };
        let t = self.time;
        let existed_alive = self.recs.get(&fr.lk).is_some_and(|r| r.alive && !r.hist.is_empty());
        // C06: identity stability and discard of dropped structs
        if self.modes.ts_identity {
            if let Some(prev) = self.recs.get(&fr.lk) {
                if existed_alive {
                    for (k, old_id) in &prev.created {
                        match fr.created.get(k) {
                            Some(new_id) if new_id != old_id => out.viol(
                                "ts_identity_changed",
                                step,
                                format!("{:?}: struct (ident {}, occurrence {}) had id {old_id:#x}, now {new_id:#x}", fr.lk, k.0, k.1),
                            ),
                            Some(_) => out.bump("ts_identity_kept"),
                            None => {
                                self.expect_discard.insert(*old_id);
                            }
                        }
                    }
                }
            }
        }
        for (_, id) in &fr.created {
            self.expect_discard.remove(id);
        }
        // structs of the previous execution that were not recreated are dead now
        if let Some(prev) = self.recs.get(&fr.lk) {
            let dead: Vec<u64> = prev.created.values().filter(|id| !fr.created.values().any(|x| x == *id)).copied().collect();
            for id in dead {
                if let Some(s) = self.ts.get_mut(&id) {
                    s.live = false;
                }
            }
        }
        if self.modes.lru && fr.kind == Kind::Lru {
            if self.lru.evicted.remove(&fr.lk) {
                self.lru.pending_fetch = Some((fr.lk.clone(), self.frames.len()));
            }
            self.lru.cached.insert(fr.lk.clone());
        }
        let dur = if fr.untracked { Some(0) } else { fr.dur };
        let rec = self.recs.entry(fr.lk.clone()).or_insert_with(|| Rec { kind: fr.kind, reads: vec![], untracked: false, validated_at: 0, hist: vec![], alive: true, created: BTreeMap::new(), coarse: false });
        rec.hist.push(ExecRec { t, full, dur, fresh: !existed_alive, rev: self.rev });
        if rec.hist.len() > 64 {
            rec.hist.remove(0);
        }
        rec.reads = fr.reads;
        rec.untracked = fr.untracked;
        rec.validated_at = t;
        rec.alive = true;
        rec.coarse = false;
        rec.created = fr.created;
        if let Some(sk) = fr.skey {
            self.skey2lk.insert(sk, fr.lk.clone());
        }
        self.exec_rev.insert(fr.lk, self.rev);
    }

    fn lru_fetch(&mut self, k: LKey, step: usize, out: &mut RunOut) {
        if self.lru.evicted.contains(&k) {
            out.viol("lru_evicted_value_still_cached", step, format!("{k:?} was returned without executing although the LRU model evicted its value"));
            self.lru.evicted.remove(&k);
        }
        if self.lru.cap > 0 {
            self.lru.list.retain(|x| *x != k);
            self.lru.list.push(k);
        }
    }

    fn lru_evict(&mut self, out: &mut RunOut) {
        if self.lru.cap == 0 {
            return;
        }
        while self.lru.list.len() > self.lru.cap {
            let k = self.lru.list.remove(0);
            let evictable = self.recs.get(&k).is_some_and(|r| !r.untracked) && self.lru.cached.contains(&k);
            if evictable {
                self.lru.cached.remove(&k);
                self.lru.evicted.insert(k);
                out.bump("lru_model_evictions");
            } else {
                out.bump("lru_model_pop_without_eviction");
            }
        }
    }

    fn note_active(&mut self, t: Option<usize>) {
        let r = self.rev;
        if r > 1 {
            if self.im.active_upper.last() != Some(&r) {
                self.im.active_upper.push(r);
            }
            if let Some(t) = t {
                if self.im.active_lower[t].last() != Some(&r) {
                    self.im.active_lower[t].push(r);
                }
            }
        }
    }

    fn on_interned_reuse(&mut self, t: usize, id: u64, step: usize, out: &mut RunOut) {
        let idx = (id & 0xFFFF_FFFF) as u32;
        out.bump("intern_reuse_checked");
        let Some(old) = self.im.slot.remove(&idx) else { return };
        self.im.val2slot.remove(&(old.t, old.v));
        let r = IT_REVS[t];
        if r == usize::MAX {
            out.viol("immortal_interned_reclaimed", step, format!("ItInf value {} (slot {idx}) was reclaimed", old.v));
            return;
        }
        if old.durable {
            out.viol("durable_interned_reclaimed", step, format!("It{} value {} (slot {idx}) was interned outside a query or by a query above LOW durability, yet its slot was reused", r, old.v));
        }
        let u = &self.im.active_upper;
        if u.len() < r {
            out.viol("interned_reclaimed_before_primed", step, format!("It{r} slot {idx} reused in revision {} although only {} revisions with any activity exist", self.rev, u.len()));
            return;
        }
        let oldest_upper = u[u.len() - r];
        if old.last_use >= oldest_upper {
            out.viol(
                "fresh_interned_reclaimed",
                step,
                format!("It{r} value {} (slot {idx}) last used in revision {} was reclaimed in revision {}; the {r} most recent revisions with any activity start at {}", old.v, old.last_use, self.rev, oldest_upper),
            );
        }
        let l = &self.im.active_lower[t];
        if l.len() >= r && old.last_use >= l[l.len() - r] {
            out.bump("intern_reuse_exact_threshold_diagnostic");
        }
    }

    fn on_intern_probe(&mut self, t: usize, v: u32, id: u64, in_query: bool, step: usize, out: &mut RunOut) {
        let idx = (id & 0xFFFF_FFFF) as u32;
        let dur_now = if in_query { self.frames.last().map(|f| if f.untracked { Some(0) } else { f.dur }).unwrap_or(None) } else { Some(3) };
        if let Some(idx2) = self.im.val2slot.get(&(t, v)) {
            let o = &self.im.slot[idx2];
            if o.id != id {
                out.viol("interned_identity_changed", step, format!("It type {t} value {v} had handle {:#x}, now {id:#x}, without its slot having been reclaimed", o.id));
            } else {
                out.bump("intern_identity_kept");
            }
        }
        if let Some(o) = self.im.slot.get(&idx) {
            if o.t != t || o.v != v {
                out.viol("interned_handle_aliased", step, format!("handle {id:#x} returned for (type {t}, value {v}) while slot {idx} holds (type {}, value {})", o.t, o.v));
            }
        }
        let rev = self.rev;
        // Outside a query only the cold path (new slot / reused slot) makes a value immortal; a hit
        // from outside a query leaves durability and last-use untouched within the revision.
        let cold = self.im.fresh_ids.remove(&id);
        let durable_now = if in_query { matches!(dur_now, Some(d) if d >= 1) } else { cold };
        let o = self.im.slot.entry(idx).or_insert(Occ { t, v, id, last_use: rev, durable: false });
        o.t = t;
        o.v = v;
        o.id = id;
        o.last_use = o.last_use.max(rev);
        o.durable |= durable_now;
        self.im.val2slot.insert((t, v), idx);
    }

    fn process(&mut self, db: &SimDatabase, step: usize, evs: &[Ev], out: &mut RunOut) {
        for e in evs {
            self.time += 1;
            if self.modes.intern {
                match e {
                    Ev::Salsa { k: k @ (SK::DidIntern | SK::DidReuseInterned | SK::DidValidateInterned), ing, id, x } => {
                        if *x != self.rev {
                            out.bump("revision_resync");
                            self.rev = *x;
                        }
                        let name = self.ing_name(db, *ing);
                        let t = it_type(&name);
                        self.note_active(t);
                        if let Some(t) = t {
                            if matches!(k, SK::DidIntern | SK::DidReuseInterned) {
                                self.im.fresh_ids.insert(*id);
                            }
                            match k {
                                SK::DidReuseInterned => self.on_interned_reuse(t, *id, step, out),
                                SK::DidValidateInterned => {
                                    let idx = (*id & 0xFFFF_FFFF) as u32;
                                    let rev = self.rev;
                                    if let Some(o) = self.im.slot.get_mut(&idx) {
                                        o.last_use = o.last_use.max(rev);
                                    }
                                }
                                _ => {}
                            }
                        }
                    }
                    Ev::Intern { t, v, id, in_query } => {
                        self.note_active(Some(*t));
                        self.on_intern_probe(*t, *v, *id, *in_query, step, out);
                    }
                    _ => self.note_active(None),
                }
            }
            if self.modes.lru {
                if let Some((k, depth)) = self.lru.pending_fetch.clone() {
                    if self.lru.relax {
                        // accumulated(): the DFS refreshes every transitive callee's memo, which
                        // recomputes evicted values (they are needed, hence requested)
                        self.lru.pending_fetch = None;
                    } else if self.frames.len() == depth && !matches!(e, Ev::Salsa { .. } | Ev::SalsaPlain(_)) {
                        self.lru.pending_fetch = None;
                        let ok = matches!(e, Ev::RdCall { node, arg, .. } if LKey::Node(*node, *arg) == k);
                        if !ok {
                            out.viol("lru_evicted_executed_without_request", step, format!("evicted {k:?} was recomputed although it was not being requested (next event {e:?})"));
                        }
                    }
                }
                if let Ev::RdCall { node, arg, .. } = e {
                    if self.prog.nodes[*node].kind == Kind::Lru {
                        self.lru_fetch(LKey::Node(*node, *arg), step, out);
                    }
                }
            }
            match e {
                Ev::Salsa { k: SK::WillExecute, ing, id, .. } => {
                    self.will_execute += 1;
                    self.pending_we = Some((*ing, *id));
                }
                Ev::Salsa { k: SK::DidValidateMemo, ing, id, .. } => {
                    if let Some(lk) = self.skey2lk.get(&(*ing, *id)) {
                        if let Some(r) = self.recs.get_mut(lk) {
                            r.validated_at = self.time;
                        }
                    }
                }
                Ev::Salsa { k: SK::DidReuseInterned, ing, id, .. } => {
                    let name = self.ing_name(db, *ing);
                    let idx = (*id & 0xFFFF_FFFF) as u32;
                    if name.starts_with("It") {
                        self.it_reuse.entry(idx).or_default().push(self.time);
                    } else {
                        self.any_reuse.push(self.time);
                    }
                }
                Ev::Salsa { k: SK::DidDiscard, ing, id, .. } => {
                    let name = self.ing_name(db, *ing);
                    self.seen_discard.insert((name.clone(), *id));
                    if name == "Ts" || name == "TsP" {
                        if let Some(s) = self.ts.get_mut(id) {
                            s.discarded_at = Some(self.time);
                            s.live = false;
                        }
                    } else if let Some(lk) = self.skey2lk.get(&(*ing, *id)) {
                        if let Some(r) = self.recs.get_mut(lk) {
                            r.alive = false;
                        }
                    }
                }
                Ev::Exec { node, id, arg } => self.on_exec(*node, *id, *arg, step, out),
                Ev::ExecEnd { full, .. } => self.on_exec_end(*full, step, out),
                Ev::RdIn { i, f } => {
                    let d = self.field_dur.get(&(*i, *f)).copied().unwrap_or(0);
                    if let Some(fr) = self.frames.last_mut() {
                        // NEVER_CHANGE reads are not recorded as dependencies
                        if d < 3 {
                            fr.reads.push(Read::In(*i, *f));
                        }
                        fr.dur = dmin(fr.dur, Some(d));
                    }
                }
                Ev::RdCall { node, arg, .. } => {
                    let kind = self.prog.nodes[*node].kind;
                    let lk = LKey::Node(*node, if kind.is_multi() { *arg } else { 0 });
                    let d = self.cur_dur(&lk);
                    if let Some(fr) = self.frames.last_mut() {
                        fr.reads.push(Read::Call(lk));
                        fr.dur = dmin(fr.dur, d);
                        if kind.is_multi() {
                            fr.dur = None;
                        }
                    }
                }
                Ev::RdOnTs { node, id, .. } => {
                    let lk = LKey::OnTs(*node, *id);
                    let d = self.cur_dur(&lk);
                    if let Some(fr) = self.frames.last_mut() {
                        fr.reads.push(Read::Call(lk));
                        fr.dur = dmin(fr.dur, d);
                    }
                }
                Ev::RdOnIt { node, id, .. } => {
                    let lk = LKey::OnIt(*node, *id);
                    if let Some(fr) = self.frames.last_mut() {
                        fr.reads.push(Read::Call(lk));
                        fr.dur = None;
                    }
                }
                Ev::RdTs { id, f, .. } => {
                    if *f != 0 {
                        let d = self.ts.get(id).and_then(|s| s.creates.last()).and_then(|c| c.dur);
                        if let Some(fr) = self.frames.last_mut() {
                            fr.reads.push(Read::Ts { id: *id, f: *f });
                            fr.dur = dmin(fr.dur, d);
                        }
                    }
                }
                Ev::RdIt { id } => {
                    if let Some(fr) = self.frames.last_mut() {
                        fr.reads.push(Read::It { id: *id });
                        fr.dur = None;
                    }
                }
                Ev::Intern { id, in_query, .. } => {
                    if *in_query {
                        if let Some(fr) = self.frames.last_mut() {
                            fr.reads.push(Read::It { id: *id });
                            fr.dur = None;
                        }
                    }
                }
                Ev::RdUntracked => {
                    if let Some(fr) = self.frames.last_mut() {
                        fr.untracked = true;
                        fr.dur = Some(0);
                    }
                }
                Ev::NewTs { ident, id, t0, .. } => {
                    let t = self.time;
                    let Some(fr) = self.frames.last_mut() else { continue };
                    let occ = fr.occ.entry(*ident).or_insert(0);
                    let key = (*ident, *occ);
                    *occ += 1;
                    fr.created.insert(key, *id);
                    let (lk, dur) = (fr.lk.clone(), fr.dur);
                    if self.modes.ts_identity {
                        if let Some(s) = self.ts.get(id) {
                            if s.live && (s.creator.as_ref() != Some(&lk) || s.ident != key.0 || s.occ != key.1) {
                                out.viol(
                                    "ts_identity_aliased",
                                    step,
                                    format!("struct id {id:#x} given to ({lk:?}, ident {}, occ {}) while live for ({:?}, ident {}, occ {})", key.0, key.1, s.creator, s.ident, s.occ),
                                );
                            }
                        }
                    }
                    let s = self.ts.entry(*id).or_default();
                    if s.creator.as_ref() != Some(&lk) || s.ident != key.0 || s.occ != key.1 {
                        // id (index+generation) now denotes another logical struct
                        s.creates.clear();
                    }
                    s.creator = Some(lk);
                    s.ident = key.0;
                    s.occ = key.1;
                    s.live = true;
                    s.discarded_at = None;
                    s.creates.push(TsCreate { t, t0: *t0, dur });
                    if s.creates.len() > 32 {
                        s.creates.remove(0);
                    }
                }
                _ => {}
            }
        }
    }
}

impl Oracle for ReuseOracle {
    fn after_step(&mut self, db: &SimDatabase, world: &World, step: usize, info: &StepInfo, evs: &[Ev], out: &mut RunOut) {
        if info.new_revision {
            self.rev += 1;
            self.time += 1;
            if let Some((i, f)) = info.wrote {
                self.last_write.insert((i, f), self.time);
                if let Some(d) = info.dur {
                    // a failed write to a frozen field leaves the durability alone
                    if self.field_dur.get(&(i, f)).copied().unwrap_or(0) < 3 {
                        self.field_dur.insert((i, f), dur_u8(d));
                    }
                }
            }
        }
        self.frames.clear();
        self.pending_we = None;
        if info.kind == "restore" {
            // memos of functions that are not persisted do not survive a restore
            let persisted = |k: Kind| matches!(k, Kind::Plain | Kind::Multi | Kind::Zero | Kind::Ref | Kind::Mk | Kind::OnTs | Kind::OnIt);
            let dead: BTreeSet<LKey> = self.recs.iter().filter(|(_, r)| !persisted(r.kind)).map(|(k, _)| k.clone()).collect();
            for r in self.recs.values_mut() {
                if !persisted(r.kind) {
                    r.alive = false;
                } else if r.reads.iter().any(|x| matches!(x, Read::Call(k) if dead.contains(k))) {
                    r.coarse = true;
                }
            }
            self.restored = true;
            out.bump("restore_seen_by_reuse_oracle");
        }
        if self.modes.lru {
            if let Some(c) = info.lru_cap {
                self.lru.cap = c;
                if c == 0 {
                    self.lru.list.clear();
                }
            }
            if info.new_revision || info.kind == "trigger_lru" {
                self.lru_evict(out);
                let cached = crate::db::lru_cached_count(db);
                if cached != self.lru.cached.len() {
                    out.viol("lru_cached_count_mismatch", step, format!("after revision start/trigger {cached} q_lru values are cached, the list model predicts {} (capacity {}, list {:?})", self.lru.cached.len(), self.lru.cap, self.lru.list));
                } else if self.lru.cap > 0 && self.lru.list.len() == self.lru.cap {
                    out.bump("lru_bound_checked_at_capacity");
                }
            }
        }
        self.lru.relax = info.kind == "accumulated";
        if self.modes.lru && self.lru.relax {
            // accumulated() fetches the root first (it was requested by the preceding step, so it
            // is valid), then refreshes the memos of the transitive callees
            if let Some((n, a)) = info.node {
                if self.prog.nodes[n].kind == Kind::Lru {
                    self.lru_fetch(LKey::Node(n, if self.prog.nodes[n].kind.is_multi() { a } else { 0 }), step, out);
                }
            }
        }
        self.process(db, step, evs, out);
        if self.modes.lru {
            if let Some((k, _)) = self.lru.pending_fetch.take() {
                let ok = self.lru.relax || matches!(info.node, Some((n, a)) if LKey::Node(n, if self.prog.nodes[n].kind.is_multi() { a } else { 0 }) == k);
                if !ok && !(info.injected || info.expected_panic) {
                    out.viol("lru_evicted_executed_without_request", step, format!("evicted {k:?} was recomputed although the step requested {:?}", info.node));
                }
            }
            if let (Some((n, _)), true, false) = (info.node, info.ok, self.lru.relax) {
                if self.prog.nodes[n].kind == Kind::Lru {
                    self.lru_fetch(LKey::Node(n, 0), step, out);
                }
            }
        }
        if info.injected || info.expected_panic {
            // an unwound body leaves open frames: drop them (no record is made)
            self.frames.clear();
            return;
        }
        if self.modes.ts_identity && info.kind == "query" && info.ok {
            // dropped structs must have been discarded by now
            for id in std::mem::take(&mut self.expect_discard) {
                if !self.seen_discard.iter().any(|(n, i)| n == "Ts" && *i == id) {
                    out.viol("ts_not_discarded", step, format!("struct {id:#x} was not recreated by its creator but no DidDiscard was emitted"));
                } else {
                    out.bump("ts_discard_seen");
                }
            }
            // enumeration = live set of the model
            // entries() reports slot ids without the generation: compare slot indices
            let live: BTreeSet<u64> = self.ts.iter().filter(|(_, s)| s.live).map(|(id, _)| *id & 0xFFFF_FFFF).collect();
            let listed: BTreeSet<u64> = crate::db::ts_entries(db).into_iter().map(|id| id & 0xFFFF_FFFF).collect();
            if live != listed {
                out.viol("ts_entries_mismatch", step, format!("entries() lists {listed:x?} but live structs are {live:x?}"));
            }
        }
        if self.modes.untracked_rule && info.kind == "query" && info.ok && !self.prog.is_cyclic() {
            if let Some((n, arg)) = info.node {
                let mut ev = Eval::new(&self.prog, world);
                ev.eval_node(n, arg);
                let root = ev.node_key(n, arg);
                // transitive callees of the request
                let mut seen = BTreeSet::new();
                let mut stack = vec![root];
                while let Some(k) = stack.pop() {
                    if !seen.insert(k.clone()) {
                        continue;
                    }
                    if let Some(t) = ev.trace.get(&k) {
                        if t.untracked {
                            let lk = match &k {
                                QKey::Node(n) => Some(LKey::Node(*n, 0)),
                                QKey::Multi(n, a) => Some(LKey::Node(*n, *a)),
                                _ => None,
                            };
                            if let Some(lk) = lk {
                                if self.exec_rev.get(&lk) != Some(&self.rev) {
                                    out.viol(
                                        "untracked_not_reexecuted",
                                        step,
                                        format!("{lk:?} read untracked state but did not execute in revision {} although it was needed by the request of node {n}", self.rev),
                                    );
                                } else {
                                    out.bump("untracked_reexecuted_in_revision");
                                }
                            }
                        }
                        stack.extend(t.callees.iter().cloned());
                    }
                }
            }
        }
        if self.will_execute != self.execs && info.ok && !self.prog.is_cyclic() {
            out.viol("harness_will_execute_mismatch", step, format!("WillExecute events {} != body executions {}", self.will_execute, self.execs));
            self.will_execute = self.execs;
        }
    }
}
