//! Reference interpreter: evaluates a program from scratch over the current inputs and external
//! cells. No revisions, no dependency tracking, no salsa code. Within ONE top-level evaluation
//! results are shared per query key (plain dynamic programming over a pure function; the table
//! is thrown away afterwards), which also yields the call tree needed for accumulator order.

use crate::prog::*;
use std::collections::{BTreeMap, BTreeSet, HashMap};

#[derive(Clone, Debug, PartialEq, Eq)]
pub struct World {
    pub ins: Vec<[u32; 3]>,
    pub cells: Vec<u32>,
}

/// Query key of the reference (logical, never a salsa id).
#[derive(Clone, Debug, PartialEq, Eq, Hash, PartialOrd, Ord)]
pub enum QKey {
    Node(usize),
    Multi(usize, u32),
    /// OnTs / Spec node applied to logical struct (creator key, ident, occurrence)
    OnTs(usize, TsId),
    OnIt(usize, usize, u32),
}

#[derive(Clone, Debug, PartialEq, Eq, Hash, PartialOrd, Ord)]
pub struct TsId {
    pub creator: Box<QKey>,
    pub ident: u32,
    pub occ: u32,
}

#[derive(Clone, Debug)]
pub struct TsData {
    pub id: TsId,
    pub t0: u32,
    pub t1: u32,
    /// value specified for q_spec by the creator (if any)
    pub spec: Option<u32>,
    /// q_spec(body) was computed for this key by the creator before it specified
    pub computed_first: bool,
}

#[derive(Clone, Debug, PartialEq, Eq)]
pub enum Abort {
    SpecifyForeign,
    SpecifyTwice,
    Cycle,
}

#[derive(Clone, Debug, Default)]
pub struct Trace {
    pub acc: Vec<u32>,
    pub callees: Vec<QKey>,
    /// (input, field) reads, in order, deduplicated
    pub in_reads: Vec<(usize, usize)>,
    pub untracked: bool,
    pub interned: Vec<(usize, u32)>,
    pub created: Vec<usize>,
}

#[derive(Clone, Debug)]
pub struct Done {
    pub v: u32,
    pub regs: [u32; NREG],
    pub ts: Vec<usize>,
    pub it: Vec<(usize, u32)>,
}

pub struct Eval<'a> {
    pub prog: &'a Program,
    pub world: &'a World,
    pub arena: Vec<TsData>,
    pub done: HashMap<QKey, Done>,
    pub trace: HashMap<QKey, Trace>,
    pub stack: Vec<QKey>,
    pub abort: Option<Abort>,
}

struct Frame<'e, 'a> {
    ev: &'e mut Eval<'a>,
    key: QKey,
    occ: BTreeMap<u32, u32>,
    specified: BTreeSet<usize>,
}

impl<'a> Eval<'a> {
    pub fn new(prog: &'a Program, world: &'a World) -> Self {
        Eval { prog, world, arena: vec![], done: HashMap::new(), trace: HashMap::new(), stack: vec![], abort: None }
    }

    pub fn node_key(&self, node: usize, arg: u32) -> QKey {
        if self.prog.nodes[node].kind.is_multi() { QKey::Multi(node, arg % self.prog.m) } else { QKey::Node(node) }
    }

    pub fn eval_key(&mut self, key: QKey) -> Done {
        if let Some(d) = self.done.get(&key) {
            return d.clone();
        }
        if self.stack.contains(&key) {
            self.abort.get_or_insert(Abort::Cycle);
            return Done { v: 0, regs: [0; NREG], ts: vec![], it: vec![] };
        }
        self.stack.push(key.clone());
        self.trace.insert(key.clone(), Trace::default());
        let (node, r0, ts0, it0) = match &key {
            QKey::Node(n) => (*n, 0, None, None),
            QKey::Multi(n, a) => (*n, *a, None, None),
            QKey::OnTs(n, id) => {
                let h = self.arena.iter().position(|t| &t.id == id).expect("logical struct exists");
                (*n, 0, Some(h), None)
            }
            QKey::OnIt(n, t, v) => (*n, 0, None, Some((*t, *v))),
        };
        let prog = self.prog;
        let mut fr = Frame { ev: self, key: key.clone(), occ: BTreeMap::new(), specified: BTreeSet::new() };
        let out = run_body(&mut fr, prog, node, r0, ts0, it0);
        let d = Done { v: out.ret, regs: out.regs, ts: out.ts, it: out.it };
        self.stack.pop();
        self.done.insert(key, d.clone());
        d
    }

    pub fn eval_node(&mut self, node: usize, arg: u32) -> Done {
        let k = self.node_key(node, arg);
        self.eval_key(k)
    }

    /// accumulated values of `key` in salsa's documented order: DFS over the callees in first-call
    /// order, each query once, a query's own values when it is visited.
    pub fn accumulated(&self, root: &QKey) -> Vec<u32> {
        let mut out = vec![];
        let mut seen = BTreeSet::new();
        let mut stack = vec![root.clone()];
        while let Some(k) = stack.pop() {
            if !seen.insert(k.clone()) {
                continue;
            }
            if let Some(t) = self.trace.get(&k) {
                out.extend(t.acc.iter().copied());
                for c in t.callees.iter().rev() {
                    stack.push(c.clone());
                }
            }
        }
        out
    }
}

impl<'e, 'a> Frame<'e, 'a> {
    fn tr(&mut self) -> &mut Trace {
        self.ev.trace.get_mut(&self.key).unwrap()
    }
    fn callee(&mut self, k: QKey) -> Done {
        let d = self.ev.eval_key(k.clone());
        let t = self.tr();
        if !t.callees.contains(&k) {
            t.callees.push(k);
        }
        d
    }
}

impl<'e, 'a> Host for Frame<'e, 'a> {
    type Ts = usize;
    type It = (usize, u32);

    fn read_in(&mut self, i: usize, f: usize) -> u32 {
        let t = self.tr();
        if !t.in_reads.contains(&(i, f)) {
            t.in_reads.push((i, f));
        }
        self.ev.world.ins[i][f]
    }
    fn call(&mut self, node: usize) -> u32 {
        let k = self.ev.node_key(node, 0);
        self.callee(k).v
    }
    fn call_multi(&mut self, node: usize, arg: u32) -> u32 {
        let k = self.ev.node_key(node, arg);
        self.callee(k).v
    }
    fn mk_call(&mut self, node: usize) -> (u32, Vec<usize>, Vec<(usize, u32)>) {
        let k = self.ev.node_key(node, 0);
        let d = self.callee(k);
        (d.v, d.ts, d.it)
    }
    fn new_ts(&mut self, ident: u32, t0: u32, t1: u32) -> usize {
        let occ = self.occ.entry(ident).or_insert(0);
        let id = TsId { creator: Box::new(self.key.clone()), ident, occ: *occ };
        *occ += 1;
        self.ev.arena.push(TsData { id, t0, t1, spec: None, computed_first: false });
        let h = self.ev.arena.len() - 1;
        self.tr().created.push(h);
        h
    }
    fn read_ts(&mut self, h: &usize, f: usize) -> u32 {
        let t = &self.ev.arena[*h];
        match f {
            0 => t.id.ident,
            1 => t.t0,
            _ => t.t1,
        }
    }
    fn call_on_ts(&mut self, h: &usize) -> u32 {
        let Some(n) = self.ev.prog.node_of_kind(Kind::OnTs).or(self.ev.prog.node_of_kind(Kind::POnTs)) else { return 0 };
        let id = self.ev.arena[*h].id.clone();
        self.callee(QKey::OnTs(n, id)).v
    }
    fn call_spec(&mut self, h: &usize) -> u32 {
        let Some(n) = self.ev.prog.node_of_kind(Kind::Spec) else { return 0 };
        let t = &self.ev.arena[*h];
        if let Some(v) = t.spec {
            // specified: no body, no callee trace beyond the key itself
            let k = QKey::OnTs(n, t.id.clone());
            let tr = self.tr();
            if !tr.callees.contains(&k) {
                tr.callees.push(k);
            }
            return v;
        }
        let id = t.id.clone();
        // the body value is now memoized for this key: a later `specify` in the same
        // (creator) execution is ignored ("a value the creator already computed ... is kept")
        self.ev.arena[*h].computed_first = true;
        self.callee(QKey::OnTs(n, id)).v
    }
    fn specify(&mut self, h: &usize, v: u32) {
        if self.ev.prog.node_of_kind(Kind::Spec).is_none() {
            return;
        }
        let t = &mut self.ev.arena[*h];
        if *t.id.creator != self.key {
            self.ev.abort.get_or_insert(Abort::SpecifyForeign);
            return;
        }
        if t.computed_first {
            return;
        }
        if !self.specified.insert(*h) {
            self.ev.abort.get_or_insert(Abort::SpecifyTwice);
            return;
        }
        t.spec = Some(v % self.ev.prog.m);
    }
    fn intern(&mut self, t: usize, v: u32) -> (usize, u32) {
        self.tr().interned.push((t % 4, v));
        (t % 4, v)
    }
    fn read_it(&mut self, h: &(usize, u32)) -> u32 {
        h.1
    }
    fn call_on_it(&mut self, h: &(usize, u32)) -> u32 {
        let Some(n) = self.ev.prog.node_of_kind(Kind::OnIt) else { return 0 };
        self.callee(QKey::OnIt(n, h.0, h.1)).v
    }
    fn acc(&mut self, v: u32) {
        self.tr().acc.push(v);
    }
    fn untracked(&mut self, c: usize) -> u32 {
        self.tr().untracked = true;
        self.ev.world.cells[c]
    }
}
