//! Concurrent scenarios (E3): reader / creator threads with one database clone each, a writer
//! (the main thread, owner of the original handle) acting at a scheduler-chosen moment, token
//! cancellation by a controller, panics injected into user code while other threads wait.
//! The case description lives here so that replay files of every engine share one schema.

use serde::{Deserialize, Serialize};

#[derive(Clone, Debug, PartialEq, Eq, Serialize, Deserialize, Hash)]
pub enum Req {
    Query { n: u16, arg: u32, deep: bool },
    /// intern directly (outside any query) and read the field back
    Intern { t: u8, v: u32 },
    /// create a new input and read its fields back
    NewInput { v: u32 },
    /// clone the own handle, query on the clone, drop it
    CloneQueryDrop { n: u16, arg: u32 },
    Yield,
}

#[derive(Clone, Debug, PartialEq, Eq, Serialize, Deserialize, Hash)]
pub enum WriterOp {
    SetIn { i: u16, f: u8, v: u32 },
    Synthetic,
    SetLru { cap: u8 },
    TriggerLru,
    TriggerCancel,
}

#[derive(Clone, Debug, PartialEq, Eq, Serialize, Deserialize, Hash, Default)]
pub struct Round {
    pub readers: Vec<Vec<Req>>,
    /// performed by the main thread while the readers run, after `writer_delay` yields
    pub writer: Option<WriterOp>,
    pub writer_delay: u8,
    /// the writer first waits until this many bodies have completed in the round (0 = do not
    /// wait; bounded by 400 yields): puts the cancellation inside in-flight work
    #[serde(default)]
    pub writer_after: u8,
    /// (reader index, yields before the controller calls cancel() on that reader's token)
    pub cancels: Vec<(u8, u8)>,
}

#[derive(Clone, Debug, PartialEq, Eq, Serialize, Deserialize, Default)]
pub struct ConcCase {
    pub scenario: String,
    /// durabilities given to input fields before the first round (input, field, durability)
    #[serde(default)]
    pub field_durs: Vec<(u16, u8, crate::prog::Dur)>,
    pub rounds: Vec<Round>,
    pub sched_seed: u64,
    /// "random" | "pct" | "rr"
    pub strategy: String,
    pub stay_pct: u32,
    pub pct_depth: u32,
    /// PCT: priority change points are drawn from 1..=pct_horizon scheduling steps
    #[serde(default)]
    pub pct_horizon: u64,
    pub spurious_pct: u32,
    pub max_steps: u64,
    /// recorded scheduler choices (replay); empty = explore from the seed
    #[serde(default)]
    pub choices: Vec<u16>,
}

#[cfg(feature = "e3")]
pub use imp::run_conc;

#[cfg(feature = "e3")]
mod imp {
    use super::*;
    use crate::case::*;
    use crate::db::*;
    use crate::e1::{Obs, PK, observe, panic_kind};
    use crate::prog::*;
    use crate::refi::{Eval, World};
    use crate::rng::{hash64, hash_str};
    use salsa::plumbing::AsId;
    use std::collections::{BTreeMap, BTreeSet, HashMap};
    use std::panic::{AssertUnwindSafe, catch_unwind};
    use std::sync::atomic::Ordering::SeqCst;
    use std::sync::{Arc, Mutex};

    #[derive(Debug, Clone)]
    pub enum Outc {
        Val(Obs),
        Interned { t: usize, v: u32, id: u64, back: u32 },
        Input { id: u64, v: u32, back: [u32; 3] },
        Panic(PK),
        None,
    }

    #[derive(Debug, Clone, Default)]
    pub struct RoundLog {
        pub pre: Option<World>,
        pub post: Option<World>,
        /// per reader: outcome per request (stops early after PendingWrite)
        pub results: Vec<Vec<Outc>>,
        pub events: Vec<Ev>,
        /// main thread's verification requests after the round: (node, outcome)
        pub after: Vec<(usize, Outc)>,
        pub writer_panic: Option<PK>,
        pub cancelled: Vec<usize>,
        /// fixpoint programs: what the members' memos record at the end of the round
        pub memo_infos: Vec<MemoInfo>,
        /// ... and right after the round's write returned, before any request of the new revision
        pub memo_infos_pre: Vec<MemoInfo>,
    }

    fn reader_body(db: SimDatabase, reqs: Vec<Req>, writer_round: bool, ti: usize) -> Vec<Outc> {
        let mut out = vec![];
        salsa::verif::trace_mark(&format!("reader_start:{ti}"));
        for r in reqs {
            salsa::verif::trace_mark(if matches!(r, Req::CloneQueryDrop { .. }) { "request_start:clone" } else { "request_start" });
            let o = match r {
                Req::Yield => {
                    crate::sched_yield();
                    Outc::None
                }
                Req::Query { n, arg, deep } => match catch_unwind(AssertUnwindSafe(|| observe(&db, n as usize, arg, deep))) {
                    Ok(o) => Outc::Val(o),
                    Err(p) => Outc::Panic(panic_kind(&p)),
                },
                Req::CloneQueryDrop { n, arg } => {
                    let d2 = db.clone();
                    let r = catch_unwind(AssertUnwindSafe(|| observe(&d2, n as usize, arg, false)));
                    drop(d2);
                    match r {
                        Ok(o) => Outc::Val(o),
                        Err(p) => Outc::Panic(panic_kind(&p)),
                    }
                }
                Req::Intern { t, v } => match catch_unwind(AssertUnwindSafe(|| {
                    let h = intern_any(&db, t as usize, v);
                    (h.id().as_bits(), h.v(&db))
                })) {
                    Ok((id, back)) => Outc::Interned { t: t as usize % 4, v, id, back },
                    Err(p) => Outc::Panic(panic_kind(&p)),
                },
                Req::NewInput { v } => match catch_unwind(AssertUnwindSafe(|| {
                    let i = In::new(&db, v, v.wrapping_add(1), v.wrapping_add(2));
                    crate::sched_yield();
                    (i.as_id().as_bits(), [i.f0(&db), i.f1(&db), i.f2(&db)])
                })) {
                    Ok((id, back)) => Outc::Input { id, v, back },
                    Err(p) => Outc::Panic(panic_kind(&p)),
                },
            };
            salsa::verif::trace_mark("request_end");
            let stop = matches!(&o, Outc::Panic(PK::Cancelled(c)) if c == "PendingWrite");
            let stop = stop || (writer_round && matches!(&o, Outc::Panic(PK::Cancelled(c)) if c == "PropagatedPanic"));
            out.push(o);
            if stop {
                // a cancelled reader drops its handle so that the writer can proceed
                break;
            }
        }
        drop(db);
        out
    }

    fn apply_writer(db: &mut SimDatabase, world: &mut World, op: &WriterOp) {
        match op {
            WriterOp::SetIn { i, f, v } => {
                db.set_in(*i as usize, *f as usize, *v, None);
                world.ins[*i as usize][*f as usize] = *v;
            }
            WriterOp::Synthetic => salsa::Database::synthetic_write(db, salsa::Durability::LOW),
            WriterOp::SetLru { cap } => set_lru_cap(db, *cap as usize),
            WriterOp::TriggerLru => salsa::Database::trigger_lru_eviction(db),
            WriterOp::TriggerCancel => salsa::Database::trigger_cancellation(db),
        }
    }

    fn scenario(case: Case, logs: Arc<Mutex<Vec<RoundLog>>>) {
        let conc = case.conc.clone().unwrap();
        let mut world: World = (&case.world).into();
        let mut db = SimDatabase::new(&case.prog, &world);
        for (i, f, d) in &conc.field_durs {
            let v = world.ins[*i as usize][*f as usize];
            db.set_in(*i as usize, *f as usize, v, Some(*d));
        }
        if let Some(k) = case.panic_at {
            fault::arm(k);
        }
        let queryable: Vec<usize> = (0..case.prog.nodes.len()).filter(|i| case.prog.nodes[*i].kind.keyed_by_node() || case.prog.nodes[*i].kind == Kind::Zero).collect();
        let mut rounds_done = 0usize;
        for round in &conc.rounds {
            let mut log = RoundLog { pre: Some(world.clone()), ..Default::default() };
            let mut handles = vec![];
            let mut tokens = vec![];
            shuttle::rt::new_phase();
            let exec_base = db.shared.exec_ends.load(SeqCst);
            for reqs in &round.readers {
                let dbc = db.clone();
                tokens.push(salsa::Database::cancellation_token(&dbc));
                let reqs = reqs.clone();
                let wr = round.writer.is_some();
                let ti = handles.len();
                handles.push(shuttle::thread::spawn(move || reader_body(dbc, reqs, wr, ti)));
            }
            // controller: cancel tokens at scheduler-chosen moments
            for (ti, delay) in &round.cancels {
                for _ in 0..*delay {
                    crate::sched_yield();
                }
                if let Some(t) = tokens.get(*ti as usize) {
                    salsa::verif::trace_mark(&format!("cancel:{ti}"));
                    t.cancel();
                    salsa::verif::trace_mark(&format!("cancelled:{ti}"));
                    log.cancelled.push(*ti as usize);
                }
            }
            drop(tokens);
            if let Some(op) = &round.writer {
                if round.writer_after > 0 {
                    let base = exec_base;
                    let mut spins = 0;
                    while db.shared.exec_ends.load(SeqCst) < base + round.writer_after as u32 && spins < 400 {
                        crate::sched_yield();
                        spins += 1;
                    }
                }
                for _ in 0..round.writer_delay {
                    crate::sched_yield();
                }
                let mut w2 = world.clone();
                let r = catch_unwind(AssertUnwindSafe(|| apply_writer(&mut db, &mut w2, op)));
                match r {
                    Ok(()) => world = w2,
                    Err(p) => {
                        let pk = panic_kind(&p);
                        if matches!(pk, PK::Injected(..)) {
                            // the write was interrupted by the fault plan: perform it again
                            let mut w3 = world.clone();
                            if catch_unwind(AssertUnwindSafe(|| apply_writer(&mut db, &mut w3, op))).is_ok() {
                                world = w3;
                            }
                        }
                        log.writer_panic = Some(pk);
                    }
                }
            }
            for h in handles {
                match h.join() {
                    Ok(v) => log.results.push(v),
                    Err(p) => log.results.push(vec![Outc::Panic(panic_kind(&p))]),
                }
            }
            log.post = Some(world.clone());
            if round.writer.is_some() && case.prog.is_cyclic() && !case.prog.nodes.iter().any(|n| n.kind == Kind::Fb) {
                log.memo_infos_pre = (case.prog.blk_lo as usize..case.prog.blk_hi as usize).filter_map(|x| memo_info(&db, x)).collect();
            }
            // verification by the main thread (single handle left): everything must be usable
            fault::disarm();
            // (not after a round that only performs a joined write: the next round must find the
            // memos of the previous revision, otherwise nothing is left to re-validate concurrently)
            let verify_now = !round.readers.is_empty();
            let mut order: Vec<usize> = queryable.iter().rev().copied().collect();
            if !order.is_empty() {
                let k = (conc.sched_seed as usize).wrapping_add(rounds_done) % order.len();
                order.rotate_left(k);
            }
            rounds_done += 1;
            for n in order.iter().take(if verify_now { 7 } else { 0 }) {
                let o = match catch_unwind(AssertUnwindSafe(|| observe(&db, *n, 0, false))) {
                    Ok(o) => Outc::Val(o),
                    Err(p) => Outc::Panic(panic_kind(&p)),
                };
                log.after.push((*n, o));
            }
            if case.prog.is_cyclic() && !case.prog.nodes.iter().any(|n| n.kind == Kind::Fb) {
                log.memo_infos = (case.prog.blk_lo as usize..case.prog.blk_hi as usize).filter_map(|x| memo_info(&db, x)).collect();
            }
            log.events = db.shared.take_log();
            logs.lock().unwrap_or_else(|e| e.into_inner()).push(log);
        }
        drop(db);
    }

    fn expected(prog: &Program, world: &World, n: usize, arg: u32, deep: bool) -> (Option<Obs>, bool) {
        if prog.is_cyclic() {
            let cr = crate::refcyc::CycRef::solve(prog, world);
            (Some(Obs { v: cr.vals[n], ts: vec![], vec: vec![], its: vec![] }), cr.panic_possible(n))
        } else {
            let mut ev = Eval::new(prog, world);
            (crate::e1::expected_obs(&mut ev, prog, n, arg, deep).ok(), false)
        }
    }

    pub fn run_conc(case: &Case) -> RunOut {
        let mut out = RunOut::default();
        let conc = case.conc.clone().expect("concurrent case");
        fault::reset();
        fault::HASH_MOD.store(case.knobs.hash_mod, SeqCst);
        fault::MASK.store(case.fault_mask, SeqCst);
        let strategy = match conc.strategy.as_str() {
            "pct" => shuttle::rt::Strategy::Pct { depth: conc.pct_depth, horizon: conc.pct_horizon.max(50) },
            "pctl" => shuttle::rt::Strategy::PctLocks { depth: conc.pct_depth, horizon: (conc.pct_horizon / 10).max(8) },
            "rr" => shuttle::rt::Strategy::RoundRobin,
            _ => shuttle::rt::Strategy::Random { stay_pct: conc.stay_pct },
        };
        let cfg = shuttle::rt::Config {
            seed: conc.sched_seed,
            strategy,
            max_steps: conc.max_steps,
            spurious_pct: conc.spurious_pct,
            replay: if conc.choices.is_empty() { None } else { Some(conc.choices.clone()) },
        };
        let logs: Arc<Mutex<Vec<RoundLog>>> = Arc::new(Mutex::new(vec![]));
        let l2 = logs.clone();
        let c2 = case.clone();
        let _ = salsa::verif::take_trace();
        salsa::verif::trace_enable(true);
        let oc = shuttle::rt::check(cfg, move || scenario(c2, l2));
        salsa::verif::trace_enable(false);
        let trace = salsa::verif::take_trace();
        out.steps = oc.steps;
        out.add("sched_steps", oc.steps);
        out.add("context_switches", oc.switches);
        out.add("fault_spurious_wakeups_fired", oc.spurious_fired);
        out.add("blocked_events", oc.blocked_events);
        out.add("threads", oc.threads as u64);
        out.add("faults_fired", fault::FIRED.load(SeqCst));
        let mut ch = 0u64;
        for c in &oc.choices {
            ch = hash64(ch, *c as u64);
        }
        out.digest = ch;
        out.choices = oc.choices.clone();
        if let Some(f) = &oc.failure {
            let class = if f.starts_with("deadlock") {
                "deadlock"
            } else if f.starts_with("livelock") {
                "livelock"
            } else {
                "harness_replay_divergence"
            };
            out.viol(class, 0, f.clone());
            return out;
        }
        // C19: the recorded protocol trace must be accepted by the protocol model
        out.add("proto_trace_ops", trace.len() as u64);
        if std::env::var("VERIF_TRACE").is_ok() {
            for t in &trace {
                eprintln!("  proto {t:?}");
            }
        }
        crate::proto::check_protocol(&trace, &mut out);
        let logs = logs.lock().unwrap_or_else(|e| e.into_inner()).clone();
        let prog = &case.prog;
        let faulty = case.panic_at.is_some();
        // (type, value) -> (id, index of the last reader round that interned it)
        let mut last_interned: HashMap<(usize, u32), (u64, usize)> = HashMap::new();
        let mut reader_round = 0usize;
        // recorded finding #12: from which round on some finalized fixpoint member's memo lacks a
        // dependency that has been written (see refcyc::incomplete_participants)
        let mut d12_from: Option<usize> = None;
        if prog.is_cyclic() {
            // memo states at the end of an earlier round (finalized legitimately in their own
            // revision) against the fields written in later rounds
            'outer: for (ri, log) in logs.iter().enumerate() {
                let Some(post) = log.post.as_ref() else { continue };
                let cr = crate::refcyc::CycRef::solve(prog, post);
                for r0 in 0..=ri {
                    // end-of-round state of an earlier round against the writes after it; the state
                    // right after round r0's own write (before any request of the new revision)
                    // against that write and the later ones
                    let mut written_after = BTreeSet::new();
                    let mut written_from = BTreeSet::new();
                    for (k, round) in conc.rounds[..=ri].iter().enumerate() {
                        if let Some(WriterOp::SetIn { i, f, .. }) = &round.writer {
                            if k > r0 {
                                written_after.insert((*i as usize, *f as usize));
                            }
                            if k >= r0 {
                                written_from.insert((*i as usize, *f as usize));
                            }
                        }
                    }
                    let hit_post = r0 < ri && !crate::refcyc::incomplete_participants(&cr, &logs[r0].memo_infos, &written_after).is_empty();
                    let hit_pre = !crate::refcyc::incomplete_participants(&cr, &logs[r0].memo_infos_pre, &written_from).is_empty();
                    if hit_post || hit_pre {
                        d12_from = Some(ri);
                        break 'outer;
                    }
                }
            }
        }
        let d12 = |ri: usize| d12_from.is_some_and(|r| ri >= r);
        for (ri, (round, log)) in conc.rounds.iter().zip(logs.iter()).enumerate() {
            if !round.readers.is_empty() {
                reader_round += 1;
            }
            out.revisions += 1;
            let pre = log.pre.as_ref().unwrap();
            let post = log.post.as_ref().unwrap();
            if std::env::var("VERIF_TRACE").is_ok() {
                eprintln!("--- round {ri}");
                for e in &log.events {
                    eprintln!("    {e:?}");
                }
                for (ti, r) in log.results.iter().enumerate() {
                    eprintln!("  reader {ti}: {r:?}");
                }
            }
            let has_writer = round.writer.is_some();
            if let Some(pk) = &log.writer_panic {
                if !matches!(pk, PK::Injected(..)) {
                    out.viol("writer_panicked", ri, format!("the write of round {ri} panicked: {pk:?}"));
                }
            }
            let mut interned: HashMap<(usize, u32), u64> = HashMap::new();
            let mut id2val: HashMap<u64, (usize, u32)> = HashMap::new();
            let mut input_ids: BTreeSet<u64> = BTreeSet::new();
            for (ti, (reqs, res)) in round.readers.iter().zip(log.results.iter()).enumerate() {
                let mut local_cancels = 0;
                for (req, o) in reqs.iter().zip(res.iter()) {
                    out.digest = hash_str(out.digest, &format!("{o:?}"));
                    match (req, o) {
                        (Req::Query { n, arg, .. }, Outc::Val(g)) | (Req::CloneQueryDrop { n, arg }, Outc::Val(g)) => {
                            let deep = matches!(req, Req::Query { deep: true, .. });
                            let (e, _) = expected(prog, pre, *n as usize, *arg, deep);
                            out.bump("reader_values_compared");
                            let mixed = prog.is_cyclic() && crate::refcyc::CycRef::solve(prog, pre).panic_possible(*n as usize);
                            match e {
                                Some(e) if &e == g => {}
                                // recorded finding (C14): a function without cycle recovery on a cycle with
                                // fixpoint functions, entered from several threads, returns a provisional value
                                Some(e) if d12(ri) => out.viol("cycle_participant_incomplete_deps", ri, format!("round {ri} reader {ti} node {n}: expected {e:?} got {g:?} (a finalized fixpoint member's memo lacks a written dependency)")),
                                Some(e) if mixed => out.viol("mixed_cycle_cross_thread_value", ri, format!("round {ri} reader {ti} node {n}: expected a cycle panic or {e:?}, got {g:?}")),
                                Some(e) => out.viol("value_mismatch", ri, format!("round {ri} reader {ti} node {n}: expected {e:?} (revision the reader ran in) got {g:?}")),
                                None => out.viol("missing_panic", ri, format!("round {ri} reader {ti} node {n}: reference aborts, got {g:?}")),
                            }
                        }
                        (Req::Query { n, arg, .. }, Outc::Panic(pk)) | (Req::CloneQueryDrop { n, arg }, Outc::Panic(pk)) => {
                            let (e, cyc_panic_ok) = expected(prog, pre, *n as usize, *arg, false);
                            let ok = match pk {
                                PK::Cancelled(c) if c == "PendingWrite" => {
                                    out.bump("fault_pending_write_cancellations");
                                    has_writer
                                }
                                PK::Cancelled(c) if c == "Local" => {
                                    local_cancels += 1;
                                    out.bump("fault_local_cancellations");
                                    log.cancelled.contains(&ti) && local_cancels <= log.cancelled.iter().filter(|x| **x == ti).count()
                                }
                                PK::Cancelled(c) if c == "PropagatedPanic" => {
                                    out.bump("propagated_panics");
                                    // a reader that waits on (or meets the poisoned cycle head of) a
                                    // reader unwound by the pending write is itself cancelled with
                                    // PropagatedPanic (release_panicking reports Panicked unless the
                                    // cancellation was local)
                                    faulty || cyc_panic_ok || has_writer
                                }
                                PK::Injected(..) => {
                                    out.bump("fault_panic_reached_caller");
                                    faulty
                                }
                                PK::Msg(m) if m.contains("dependency graph cycle") => {
                                    out.bump("cycle_panic_seen");
                                    cyc_panic_ok
                                }
                                PK::Msg(m) if e.is_none() && (m.contains("specify")) => true,
                                _ => false,
                            };
                            let internal = matches!(pk, PK::Msg(m) if m.contains("cycle participant with non-empty cycle heads") || m.contains("Can't merge cycle heads") || m.contains("provisional_status.is_provisional()") || m.contains("too many cycle iterations"));
                            if !ok && internal && cyc_panic_ok {
                                out.viol("mixed_cycle_cross_thread_internal_panic", ri, format!("round {ri} reader {ti} node {n}: {pk:?}"));
                            } else if !ok {
                                out.viol("unexpected_panic", ri, format!("round {ri} reader {ti} node {n}: {pk:?}"));
                            }
                        }
                        (Req::Intern { .. }, Outc::Interned { t, v, id, back }) => {
                            out.bump("interned_outside");
                            if let Some((old, rr)) = last_interned.get(&(*t, *v)) {
                                if *t >= 1 && *rr + 1 == reader_round && old != id {
                                    out.viol("interned_identity_lost", ri, format!("type {t} value {v} was interned in the previous revision as {old:#x} and now as {id:#x}"));
                                }
                            }
                            last_interned.insert((*t, *v), (*id, reader_round));
                            if back != v {
                                out.viol("value_mismatch", ri, format!("interned {v}, read back {back}"));
                            }
                            if let Some(old) = interned.insert((*t, *v), *id) {
                                if old != *id {
                                    out.viol("interned_not_canonical", ri, format!("type {t} value {v}: handles {old:#x} and {id:#x} within one revision"));
                                }
                            }
                            if let Some(ov) = id2val.insert(*id, (*t, *v)) {
                                if ov != (*t, *v) {
                                    out.viol("interned_handle_aliased", ri, format!("handle {id:#x} returned for {ov:?} and ({t},{v})"));
                                }
                            }
                        }
                        (Req::NewInput { .. }, Outc::Input { id, v, back }) => {
                            out.bump("inputs_created");
                            if !input_ids.insert(*id) {
                                out.viol("identity_not_distinct", ri, format!("two inputs created concurrently share id {id:#x}"));
                            }
                            if *back != [*v, v.wrapping_add(1), v.wrapping_add(2)] {
                                out.viol("value_mismatch", ri, format!("input created with {v}, read back {back:?}"));
                            }
                        }
                        (_, Outc::Panic(pk)) => {
                            if !(faulty && matches!(pk, PK::Injected(..) | PK::Cancelled(_))) && !(has_writer && matches!(pk, PK::Cancelled(c) if c == "PendingWrite")) {
                                out.viol("unexpected_panic", ri, format!("round {ri} reader {ti} {req:?}: {pk:?}"));
                            }
                        }
                        _ => {}
                    }
                }
            }
            // probes / events of the round
            let mut execs: BTreeMap<(u32, u64), u32> = BTreeMap::new();
            let mut intern_probe: HashMap<(usize, u32), u64> = HashMap::new();
            let mut ts_ids: HashMap<u64, (u64, u32)> = HashMap::new();
            for e in &log.events {
                match e {
                    Ev::Salsa { k: SK::WillExecute, ing, id, .. } => *execs.entry((*ing, *id)).or_insert(0) += 1,
                    Ev::Salsa { k: SK::WillBlockOn, .. } => out.bump("ev_will_block_on"),
                    Ev::Salsa { k: SK::WillIterateCycle, x, .. } => {
                        out.bump("cycle_iterations");
                        if *x > 200 {
                            out.viol("iteration_bound_exceeded", ri, format!("iteration {x}"));
                        }
                    }
                    Ev::Intern { t, v, id, .. } => {
                        // a value used in the previous active revision keeps its identity for
                        // every type that retains for at least two revisions
                        if let Some((old, rr)) = last_interned.get(&(*t, *v)) {
                            if *t >= 1 && *rr + 1 == reader_round && old != id {
                                out.viol("interned_identity_lost", ri, format!("type {t} value {v} was interned in the previous revision as {old:#x} and now as {id:#x}"));
                            } else if *t >= 1 && *rr + 1 == reader_round {
                                out.bump("interned_identity_kept_across_revisions");
                            }
                        }
                        last_interned.insert((*t, *v), (*id, reader_round));
                        if let Some(old) = intern_probe.insert((*t, *v), *id) {
                            if old != *id && !has_writer {
                                out.viol("interned_not_canonical", ri, format!("type {t} value {v}: handles {old:#x} and {id:#x} within one revision (inside queries)"));
                            }
                        }
                        if let Some(o) = interned.get(&(*t, *v)) {
                            if o != id && !has_writer {
                                out.viol("interned_not_canonical", ri, format!("type {t} value {v}: handle {o:#x} outside a query, {id:#x} inside"));
                            }
                        }
                    }
                    Ev::NewTs { creator, ident, id, .. } => {
                        if let Some(o) = ts_ids.insert(*id, (*creator, *ident)) {
                            if o != (*creator, *ident) && !has_writer {
                                out.viol("identity_not_distinct", ri, format!("tracked struct id {id:#x} used for {o:?} and ({creator},{ident}) in one revision"));
                            }
                        }
                    }
                    _ => {}
                }
            }
            out.add("ev_will_execute", execs.values().map(|x| *x as u64).sum());
            if case.property == "C17" && !prog.is_cyclic() && !faulty && round.cancels.is_empty() && !has_writer {
                for ((ing, id), c) in &execs {
                    if *c > 1 {
                        out.viol("executed_twice_in_revision", ri, format!("function ingredient {ing} key {id:#x} executed {c} times in one revision"));
                    }
                }
                out.add("keys_checked_single_execution", execs.len() as u64);
            }
            // after the round everything is usable and equals the reference of the new inputs
            for (n, o) in &log.after {
                let (e, cyc_ok) = expected(prog, post, *n, 0, false);
                match o {
                    Outc::Val(g) => match e {
                        Some(e) if &e == g => out.bump("post_round_values_compared"),
                        Some(e) if d12(ri) => out.viol("cycle_participant_incomplete_deps", ri, format!("after round {ri} node {n}: expected {e:?} got {g:?} (a finalized fixpoint member's memo lacks a written dependency)")),
                        Some(e) if cyc_ok && conc.rounds[ri].readers.len() > 1 => out.viol("mixed_cycle_cross_thread_value", ri, format!("after round {ri} node {n}: expected {e:?} got {g:?} (memo left by the concurrent round)")),
                        Some(e) => out.viol("value_mismatch_after_round", ri, format!("after round {ri} node {n}: expected {e:?} got {g:?}")),
                        None => {}
                    },
                    Outc::Panic(PK::Msg(m)) if cyc_ok && m.contains("dependency graph cycle") => {}
                    Outc::Panic(PK::Cancelled(c)) if c == "PropagatedPanic" && (cyc_ok || (faulty && prog.is_cyclic())) => out.bump("poisoned_head_observed"),
                    Outc::Panic(PK::Msg(m)) if cyc_ok && (m.contains("cycle participant with non-empty cycle heads") || m.contains("Can't merge cycle heads") || m.contains("provisional_status.is_provisional()") || m.contains("too many cycle iterations")) => {
                        out.viol("mixed_cycle_cross_thread_internal_panic", ri, format!("after round {ri} node {n}: {m}"))
                    }
                    Outc::Panic(pk) => out.viol("unexpected_panic_after_round", ri, format!("after round {ri} node {n}: {pk:?}")),
                    _ => {}
                }
            }
        }
        out
    }
}
