//! Concurrent scenarios (E3). The case description lives here so that replay files of every
//! engine share one schema.

use serde::{Deserialize, Serialize};

#[derive(Clone, Debug, PartialEq, Eq, Serialize, Deserialize, Default)]
pub struct ConcCase {
    pub scenario: String,
    pub threads: usize,
    /// per-thread request lists (node, arg)
    pub requests: Vec<Vec<(u16, u32)>>,
    pub sched_seed: u64,
    pub stay_pct: u32,
    pub strategy: String,
    /// recorded scheduler choices (replay)
    #[serde(default)]
    pub choices: Vec<u16>,
}
