//! Reference semantics for cyclic programs: Kleene iteration from bottom over the block nodes
//! (least fixpoint), strongly-connected-component analysis for fallback (`cycle_result`) nodes,
//! and a from-scratch prediction of which entries re-enter a function without cycle recovery.

use crate::prog::*;
use crate::refi::World;
use std::collections::BTreeSet;

pub struct CycRef<'a> {
    pub prog: &'a Program,
    pub world: &'a World,
    /// value of every node (valid when `diverged` is false)
    pub vals: Vec<u32>,
    /// call edges executed by each node's body (input-determined), in first-call order
    pub edges: Vec<Vec<usize>>,
    pub diverged: bool,
    pub rounds: usize,
    /// block nodes that lie on a cycle (non-trivial SCC or self loop)
    pub on_cycle: BTreeSet<usize>,
    pub untracked: Vec<bool>,
    /// input fields read directly by each node's body (control flow depends on inputs only)
    pub reads: Vec<BTreeSet<(usize, usize)>>,
}

struct H<'x> {
    world: &'x World,
    vals: &'x [u32],
    calls: Vec<usize>,
    untracked: bool,
    reads: BTreeSet<(usize, usize)>,
}

impl<'x> Host for H<'x> {
    type Ts = ();
    type It = ();
    fn read_in(&mut self, i: usize, f: usize) -> u32 {
        self.reads.insert((i, f));
        self.world.ins[i][f]
    }
    fn call(&mut self, node: usize) -> u32 {
        if !self.calls.contains(&node) {
            self.calls.push(node);
        }
        self.vals[node]
    }
    fn call_multi(&mut self, node: usize, _arg: u32) -> u32 {
        self.call(node)
    }
    fn mk_call(&mut self, node: usize) -> (u32, Vec<()>, Vec<()>) {
        (self.call(node), vec![], vec![])
    }
    fn new_ts(&mut self, _: u32, _: u32, _: u32) {}
    fn read_ts(&mut self, _: &(), _: usize) -> u32 {
        0
    }
    fn call_on_ts(&mut self, _: &()) -> u32 {
        0
    }
    fn call_spec(&mut self, _: &()) -> u32 {
        0
    }
    fn specify(&mut self, _: &(), _: u32) {}
    fn intern(&mut self, _: usize, _: u32) {}
    fn read_it(&mut self, _: &()) -> u32 {
        0
    }
    fn call_on_it(&mut self, _: &()) -> u32 {
        0
    }
    fn acc(&mut self, _: u32) {}
    fn untracked(&mut self, c: usize) -> u32 {
        self.untracked = true;
        self.world.cells[c]
    }
}

impl<'a> CycRef<'a> {
    fn body(&self, n: usize, vals: &[u32]) -> (u32, Vec<usize>, bool) {
        let mut h = H { world: self.world, vals, calls: vec![], untracked: false, reads: BTreeSet::new() };
        let out = run_body(&mut h, self.prog, n, 0, None, None);
        (out.ret, h.calls, h.untracked)
    }

    fn body_reads(&self, n: usize) -> BTreeSet<(usize, usize)> {
        let mut h = H { world: self.world, vals: &self.vals, calls: vec![], untracked: false, reads: BTreeSet::new() };
        let _ = run_body(&mut h, self.prog, n, 0, None, None);
        h.reads
    }

    /// input fields that the from-scratch evaluation of `n` reads, directly or through callees
    pub fn transitive_reads(&self, n: usize) -> BTreeSet<(usize, usize)> {
        self.reach(n).iter().flat_map(|x| self.reads[*x].iter().copied()).collect()
    }

    pub fn solve(prog: &'a Program, world: &'a World) -> Self {
        let n = prog.nodes.len();
        let (lo, hi) = (prog.blk_lo as usize, prog.blk_hi as usize);
        let mut me = CycRef { prog, world, vals: vec![0; n], edges: vec![vec![]; n], diverged: false, rounds: 0, on_cycle: BTreeSet::new(), untracked: vec![false; n], reads: vec![BTreeSet::new(); n] };
        // 1. below the block: acyclic, in index order
        for i in 0..lo {
            let (v, e, u) = me.body(i, &me.vals);
            me.vals[i] = v;
            me.edges[i] = e;
            me.untracked[i] = u;
        }
        // 2. call edges of the block (control flow is independent of block values)
        for i in lo..hi {
            let (_, e, u) = me.body(i, &me.vals);
            me.edges[i] = e;
            me.untracked[i] = u;
        }
        me.on_cycle = me.cycle_nodes(lo, hi);
        let fb = (lo..hi).any(|i| prog.nodes[i].kind == Kind::Fb);
        if fb {
            // fallback cycles: every node on a cycle gets its fallback, the rest is acyclic
            for i in lo..hi {
                if me.on_cycle.contains(&i) {
                    me.vals[i] = prog.fb_base + i as u32;
                }
            }
            // remaining nodes: iterate to the unique solution (depth <= block size)
            for _ in 0..=(hi - lo) {
                for i in lo..hi {
                    if !me.on_cycle.contains(&i) {
                        me.vals[i] = me.body(i, &me.vals).0;
                    }
                }
            }
        } else {
            // Strongly connected components in dependency order (callees first); inside a
            // component Kleene iteration from bottom (least fixpoint for monotone bodies), with
            // everything below already final. Acyclic block nodes are evaluated exactly once.
            let reach: Vec<BTreeSet<usize>> = (0..n).map(|i| me.reach(i)).collect();
            let mut done: BTreeSet<usize> = (0..lo).collect();
            let limit = 400;
            while done.len() < hi {
                let mut progressed = false;
                for i in lo..hi {
                    if done.contains(&i) {
                        continue;
                    }
                    let scc: Vec<usize> = (lo..hi).filter(|j| *j == i || (reach[i].contains(j) && reach[*j].contains(&i))).collect();
                    let ready = scc.iter().all(|m| me.edges[*m].iter().all(|c| done.contains(c) || scc.contains(c)));
                    if !ready {
                        continue;
                    }
                    let cyclic = scc.len() > 1 || me.edges[i].contains(&i);
                    if !cyclic {
                        me.vals[i] = me.body(i, &me.vals).0;
                    } else {
                        for m in &scc {
                            me.vals[*m] = 0;
                        }
                        let mut rounds = 0;
                        loop {
                            rounds += 1;
                            let mut next = me.vals.clone();
                            for m in &scc {
                                next[*m] = me.body(*m, &me.vals).0;
                            }
                            if next == me.vals {
                                break;
                            }
                            me.vals = next;
                            if rounds > limit {
                                me.diverged = true;
                                break;
                            }
                        }
                        me.rounds = me.rounds.max(rounds);
                    }
                    done.extend(scc);
                    progressed = true;
                }
                if !progressed {
                    break;
                }
            }
        }
        // 3. above the block
        for i in hi..n {
            let (v, e, u) = me.body(i, &me.vals);
            me.vals[i] = v;
            me.edges[i] = e;
            me.untracked[i] = u;
        }
        for i in 0..n {
            me.reads[i] = me.body_reads(i);
        }
        me
    }

    fn reach(&self, from: usize) -> BTreeSet<usize> {
        let mut seen = BTreeSet::new();
        let mut st = vec![from];
        while let Some(x) = st.pop() {
            if seen.insert(x) {
                st.extend(self.edges[x].iter().copied());
            }
        }
        seen
    }

    fn cycle_nodes(&self, lo: usize, hi: usize) -> BTreeSet<usize> {
        let mut out = BTreeSet::new();
        for i in lo..hi {
            // i is on a cycle iff i is reachable from one of its callees
            if self.edges[i].iter().any(|c| self.reach(*c).contains(&i)) {
                out.insert(i);
            }
        }
        out
    }

    /// nodes reachable from `entry` (including it)
    pub fn reachable(&self, entry: usize) -> BTreeSet<usize> {
        self.reach(entry)
    }

    fn recovers(&self, n: usize) -> bool {
        self.prog.nodes[n].kind.is_cycle_kind()
    }

    /// From-scratch depth-first execution starting at `entry`: does it call a function without
    /// cycle recovery that is still executing?
    pub fn scratch_panics(&self, entry: usize) -> bool {
        fn visit(me: &CycRef, n: usize, on: &mut Vec<usize>, done: &mut BTreeSet<usize>) -> bool {
            on.push(n);
            for c in &me.edges[n] {
                if on.contains(c) {
                    if !me.recovers(*c) {
                        return true;
                    }
                } else if !done.contains(c) && visit(me, *c, on, done) {
                    return true;
                }
            }
            on.pop();
            done.insert(n);
            false
        }
        visit(self, entry, &mut vec![], &mut BTreeSet::new())
    }

    /// Could any execution order starting at `entry` re-enter a non-recovering function?
    /// (a non-recovering node lies on a cycle reachable from the entry)
    pub fn panic_possible(&self, entry: usize) -> bool {
        self.reach(entry).iter().any(|n| self.on_cycle.contains(n) && !self.recovers(*n))
    }

    /// Known-finding diagnosis (C13): is `got` what node `n` returns when some non-empty set of
    /// nodes that lie on a fallback cycle return their *body* value (computed over the other
    /// results) instead of their fallback? This is the observable signature of "a participant of
    /// a fallback cycle was re-executed while the cycle head's memo was still valid".
    pub fn fb_body_value_model_matches(&self, n: usize, got: u32) -> bool {
        let (lo, hi) = (self.prog.blk_lo as usize, self.prog.blk_hi as usize);
        let cyc: Vec<usize> = self.on_cycle.iter().copied().collect();
        if cyc.is_empty() || cyc.len() > 10 {
            return false;
        }
        for mask in 1u32..(1 << cyc.len()) {
            let in_s = |x: usize| cyc.iter().position(|c| *c == x).is_some_and(|p| mask & (1 << p) != 0);
            let mut vals = self.vals.clone();
            // members of S start from their fallback and are recomputed by their bodies
            for _ in 0..=(2 * (hi - lo) + 2) {
                for i in lo..hi {
                    if in_s(i) || !self.on_cycle.contains(&i) {
                        vals[i] = self.body(i, &vals).0;
                    }
                }
            }
            for i in hi..self.prog.nodes.len() {
                vals[i] = self.body(i, &vals).0;
            }
            if vals[n] == got {
                return true;
            }
        }
        false
    }

    /// does the request of `entry` involve a node whose guarded non-monotone op is active?
    pub fn bad_active(&self, entry: usize) -> bool {
        match self.prog.bad_guard {
            Some((i, f, node)) => self.world.ins[i as usize][f as usize] != 0 && self.reach(entry).contains(&(node as usize)) && self.on_cycle.contains(&(node as usize)),
            None => false,
        }
    }
}

/// Known-finding diagnosis (#12): fixpoint members whose *finalized* memo (verified final, with a
/// cycle head other than itself) records a dependency set that does not cover an input field the
/// member transitively reads, where that field has been written during the run. Such a memo is
/// validated by its own incomplete list in later revisions. Node edges are taken to cover
/// everything the callee reads (generous to salsa).
pub fn incomplete_participants(cr: &CycRef, infos: &[crate::db::MemoInfo], written: &BTreeSet<(usize, usize)>) -> Vec<(usize, Vec<(usize, usize)>)> {
    let mut out = vec![];
    for info in infos {
        if !(info.has_value && info.verified_final && !info.other_heads.is_empty()) {
            continue;
        }
        let rs = cr.transitive_reads(info.node);
        let mut cs = info.fields.clone();
        for y in &info.nodes {
            cs.extend(cr.transitive_reads(*y));
        }
        let missing: Vec<(usize, usize)> = rs.difference(&cs).filter(|f| written.contains(f)).copied().collect();
        if !missing.is_empty() {
            out.push((info.node, missing));
        }
    }
    out
}
