//! Seeded PRNG (splitmix64). One integer decides everything; logging never draws from it.

#[derive(Clone, Debug)]
pub struct Rng(pub u64);

impl Rng {
    pub fn new(seed: u64) -> Self {
        Rng(seed.wrapping_mul(0x9E3779B97F4A7C15) ^ 0xD1B54A32D192ED03)
    }
    pub fn next(&mut self) -> u64 {
        self.0 = self.0.wrapping_add(0x9E3779B97F4A7C15);
        let mut z = self.0;
        z = (z ^ (z >> 30)).wrapping_mul(0xBF58476D1CE4E5B9);
        z = (z ^ (z >> 27)).wrapping_mul(0x94D049BB133111EB);
        z ^ (z >> 31)
    }
    /// uniform in 0..n (n > 0)
    pub fn below(&mut self, n: u64) -> u64 {
        debug_assert!(n > 0);
        self.next() % n
    }
    pub fn usize(&mut self, n: usize) -> usize {
        self.below(n as u64) as usize
    }
    pub fn range(&mut self, lo: usize, hi_incl: usize) -> usize {
        lo + self.usize(hi_incl - lo + 1)
    }
    /// true with probability pct/100
    pub fn pct(&mut self, pct: u32) -> bool {
        self.below(100) < pct as u64
    }
    pub fn pick<'a, T>(&mut self, xs: &'a [T]) -> &'a T {
        &xs[self.usize(xs.len())]
    }
    pub fn fork(&mut self) -> Rng {
        Rng(self.next())
    }
}

pub fn hash64(mut h: u64, x: u64) -> u64 {
    h ^= x.wrapping_add(0x9E3779B97F4A7C15).wrapping_add(h << 6).wrapping_add(h >> 2);
    h = (h ^ (h >> 30)).wrapping_mul(0xBF58476D1CE4E5B9);
    h ^ (h >> 27)
}

pub fn hash_str(h: u64, s: &str) -> u64 {
    let mut h = h;
    for b in s.as_bytes() {
        h = hash64(h, *b as u64);
    }
    h
}
