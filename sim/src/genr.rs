//! Seeded generators for programs and histories (swarm style: every run draws its own sizes,
//! op mix and step mix from the configuration of its run class).

use crate::prog::*;
use crate::refi::World;
use crate::rng::Rng;

#[derive(Clone, Debug)]
pub struct GenCfg {
    pub nodes: (usize, usize),
    pub ops: (usize, usize),
    pub inputs: (usize, usize),
    pub cells: (usize, usize),
    pub m_choices: Vec<u32>,
    /// weighted kinds for ordinary (Key-keyed) nodes
    pub kinds: Vec<(Kind, u32)>,
    pub on_ts: bool,
    pub spec: bool,
    pub on_it: bool,
    pub zero: bool,
    pub ts_ops: bool,
    pub intern_ops: bool,
    pub intern_types: Vec<u8>,
    pub acc_ops: bool,
    pub untracked_ops: bool,
    pub dyn_calls: bool,
    pub yields: bool,
    /// percentage of nodes that get struct-creating ops when ts_ops
    pub mk_bias: u32,
}

impl GenCfg {
    pub fn base() -> Self {
        GenCfg {
            nodes: (3, 10),
            ops: (2, 9),
            inputs: (1, 4),
            cells: (0, 0),
            m_choices: vec![2, 3, 4, 8],
            kinds: vec![(Kind::Plain, 10)],
            on_ts: false,
            spec: false,
            on_it: false,
            zero: false,
            ts_ops: false,
            intern_ops: false,
            intern_types: vec![0, 1, 2, 3],
            acc_ops: false,
            untracked_ops: false,
            dyn_calls: true,
            yields: false,
            mk_bias: 50,
        }
    }
}

fn pick_kind(r: &mut Rng, kinds: &[(Kind, u32)]) -> Kind {
    let tot: u32 = kinds.iter().map(|k| k.1).sum();
    let mut x = r.below(tot as u64) as u32;
    for (k, w) in kinds {
        if x < *w {
            return *k;
        }
        x -= w;
    }
    kinds[0].0
}

pub fn gen_world(r: &mut Rng, n_inputs: usize, n_cells: usize, m: u32) -> World {
    World {
        ins: (0..n_inputs).map(|_| [r.below(m as u64) as u32, r.below(m as u64) as u32, r.below(m as u64) as u32]).collect(),
        cells: (0..n_cells).map(|_| r.below(m as u64) as u32).collect(),
    }
}

/// Acyclic program: node i only calls nodes j < i (statically and dynamically); the singleton
/// struct-keyed nodes (OnTs / Spec / OnIt) and Zero sit at low indices and are only used by
/// higher nodes, so acyclicity holds by construction.
pub fn gen_acyclic(r: &mut Rng, c: &GenCfg) -> Program {
    let m = *r.pick(&c.m_choices);
    let n_inputs = r.range(c.inputs.0, c.inputs.1);
    let n_cells = r.range(c.cells.0, c.cells.1);
    let n_nodes = r.range(c.nodes.0, c.nodes.1);
    let mut kinds: Vec<Kind> = (0..n_nodes).map(|_| pick_kind(r, &c.kinds)).collect();
    // place singletons
    let mut place = |r: &mut Rng, k: Kind, kinds: &mut Vec<Kind>| {
        if kinds.len() < 3 {
            return;
        }
        let hi = (kinds.len() - 2).max(1);
        for _ in 0..4 {
            let i = r.usize(hi);
            if kinds[i].keyed_by_node() && kinds[i] != Kind::Zero {
                kinds[i] = k;
                return;
            }
        }
    };
    if c.on_ts && r.pct(80) {
        place(r, Kind::OnTs, &mut kinds);
    }
    if c.spec && r.pct(85) {
        place(r, Kind::Spec, &mut kinds);
    }
    if c.on_it && r.pct(80) {
        place(r, Kind::OnIt, &mut kinds);
    }
    if c.zero && r.pct(50) {
        place(r, Kind::Zero, &mut kinds);
    }
    let pos = |k: Kind, kinds: &[Kind]| kinds.iter().position(|x| *x == k);
    let on_ts = pos(Kind::OnTs, &kinds);
    let spec = pos(Kind::Spec, &kinds);
    let on_it = pos(Kind::OnIt, &kinds);
    let mut nodes = vec![];
    for i in 0..n_nodes {
        let kind = kinds[i];
        let n_ops = r.range(c.ops.0, c.ops.1);
        let mut ops = vec![];
        let struct_keyed = matches!(kind, Kind::OnTs | Kind::Spec | Kind::OnIt);
        let creates = c.ts_ops && !struct_keyed && (kind == Kind::Mk || r.pct(c.mk_bias / 3));
        let callable: Vec<u16> = (0..i).filter(|j| kinds[*j].keyed_by_node() || kinds[*j] == Kind::Zero).map(|j| j as u16).collect();
        let makers: Vec<u16> = (0..i).filter(|j| kinds[*j] == Kind::Mk).map(|j| j as u16).collect();
        let multis: Vec<u16> = (0..i).filter(|j| kinds[*j] == Kind::Multi).map(|j| j as u16).collect();
        let mut have_ts = struct_keyed && kind != Kind::OnIt;
        let mut have_it = kind == Kind::OnIt;
        // preambles: the shapes real programs have (read something, then create a struct from
        // it / intern it); the random ops that follow perturb them
        if creates && r.pct(60) {
            let a = r.usize(NREG) as u8;
            let b = r.usize(NREG) as u8;
            ops.push(Op::In { d: a, i: r.usize(n_inputs) as u16, f: r.usize(3) as u8 });
            if r.pct(50) {
                ops.push(Op::In { d: b, i: r.usize(n_inputs) as u16, f: r.usize(3) as u8 });
            }
            let idr = r.usize(NREG) as u8;
            ops.push(Op::NewTs { i: idr, a, b });
            if r.pct(35) {
                // a second struct, often with a colliding identity value
                ops.push(Op::NewTs { i: if r.pct(60) { idr } else { r.usize(NREG) as u8 }, a: b, b: a });
            }
            have_ts = true;
        }
        // specify shapes: a maker that conditionally specifies q_spec for its struct (before or
        // after asking for it itself); a consumer that asks for q_spec through the maker's handle
        if c.spec && have_ts && creates && spec.is_some_and(|p| p < i) && r.pct(60) {
            let g = r.usize(NREG) as u8;
            if r.pct(25) {
                ops.push(Op::CallSpec { d: r.usize(NREG) as u8, h: 0 });
            }
            ops.push(Op::In { d: g, i: r.usize(n_inputs) as u16, f: r.usize(3) as u8 });
            if r.pct(70) {
                ops.push(Op::IfSkip { s: g, c: *r.pick(&[Cmp::Eq, Cmp::Ne, Cmp::Lt, Cmp::Ge]), k: r.below(m as u64) as u32, n: 1 });
            }
            ops.push(Op::Specify { h: 0, s: g });
            if r.pct(25) {
                ops.push(Op::CallSpec { d: r.usize(NREG) as u8, h: 0 });
            }
        }
        if c.spec && !struct_keyed && !makers.is_empty() && spec.is_some_and(|p| p < i) && r.pct(40) {
            let d = r.usize(NREG) as u8;
            ops.push(Op::MkCall { d, n: *r.pick(&makers) });
            have_ts = true;
            ops.push(Op::CallSpec { d: r.usize(NREG) as u8, h: r.usize(2) as u8 });
        }
        if c.intern_ops && !c.intern_types.is_empty() && !struct_keyed && r.pct(30) {
            let a = r.usize(NREG) as u8;
            ops.push(Op::In { d: a, i: r.usize(n_inputs) as u16, f: r.usize(3) as u8 });
            ops.push(Op::Intern { t: *r.pick(&c.intern_types), s: a });
            have_it = true;
            if r.pct(50) {
                ops.push(Op::ReadIt { d: r.usize(NREG) as u8, h: 0 });
            }
        }
        for _ in 0..n_ops {
            let d = r.usize(NREG) as u8;
            let s = r.usize(NREG) as u8;
            let mut roll = r.below(100);
            // bodies keyed by a struct / interned value mostly look at their key
            if struct_keyed && r.pct(45) {
                roll = if kind == Kind::OnIt { 90 } else { 73 };
            }
            let op = match roll {
                0..=17 => Op::In { d, i: r.usize(n_inputs) as u16, f: r.usize(3) as u8 },
                18..=35 if !callable.is_empty() => Op::Call { d, n: *r.pick(&callable) },
                36..=41 if c.dyn_calls && callable.len() >= 2 => {
                    let k = r.range(2, 3.min(callable.len()));
                    Op::CallDyn { d, s, t: (0..k).map(|_| *r.pick(&callable)).collect() }
                }
                42..=46 if !multis.is_empty() => Op::CallMulti { d, n: *r.pick(&multis), s },
                47..=56 => Op::Arith { d, a: r.usize(NREG) as u8, b: r.usize(NREG) as u8, o: *r.pick(&[AOp::Add, AOp::Sub, AOp::Mul, AOp::Xor, AOp::Min, AOp::Max, AOp::Or, AOp::And]) },
                57..=62 => Op::IfSkip { s, c: *r.pick(&[Cmp::Lt, Cmp::Eq, Cmp::Ne, Cmp::Ge]), k: r.below(m as u64) as u32, n: r.range(1, 3) as u8 },
                63..=65 => Op::Const { d, c: r.below(m as u64) as u32 },
                66..=72 if creates => {
                    have_ts = true;
                    Op::NewTs { i: r.usize(NREG) as u8, a: r.usize(NREG) as u8, b: r.usize(NREG) as u8 }
                }
                66..=72 if c.ts_ops && !makers.is_empty() => {
                    have_ts = true;
                    Op::MkCall { d, n: *r.pick(&makers) }
                }
                73..=77 if have_ts => Op::ReadTs { d, h: r.usize(4) as u8, f: *r.pick(&[0u8, 1, 1, 2]) },
                78..=80 if have_ts && on_ts.is_some_and(|p| p < i) => Op::CallOnTs { d, h: r.usize(4) as u8 },
                81..=82 if have_ts && spec.is_some_and(|p| p < i) => Op::CallSpec { d, h: r.usize(4) as u8 },
                83..=84 if have_ts && creates && spec.is_some_and(|p| p < i) => Op::Specify { h: r.usize(4) as u8, s },
                85..=89 if c.intern_ops && !c.intern_types.is_empty() => {
                    have_it = true;
                    Op::Intern { t: *r.pick(&c.intern_types), s }
                }
                90..=92 if have_it => Op::ReadIt { d, h: r.usize(3) as u8 },
                93..=94 if have_it && on_it.is_some_and(|p| p < i) => Op::CallOnIt { d, h: r.usize(3) as u8 },
                95..=96 if c.acc_ops => Op::Acc { s },
                97..=98 if c.untracked_ops && n_cells > 0 => Op::Untracked { d, c: r.usize(n_cells) as u8 },
                99 if c.yields => Op::Yield,
                _ => Op::In { d, i: r.usize(n_inputs) as u16, f: r.usize(3) as u8 },
            };
            ops.push(op);
        }
        if r.pct(60) {
            ops.push(Op::Ret { s: r.usize(NREG) as u8 });
        }
        let kind = if creates && kind == Kind::Plain && r.pct(50) { Kind::Mk } else { kind };
        kinds[i] = kind;
        nodes.push(Node { kind, ops });
    }
    Program { m, n_inputs, n_cells, nodes, fb_base: 0, blk_lo: 0, blk_hi: 0, bad_guard: None }
}

#[derive(Clone, Debug)]
pub struct HistCfg {
    pub steps: (usize, usize),
    /// weights
    pub w_set: u32,
    pub w_query: u32,
    pub w_synth: u32,
    pub w_burst: u32,
    pub w_setext: u32,
    pub w_acc: u32,
    pub w_setlru: u32,
    pub w_triglru: u32,
    pub w_trigcancel: u32,
    pub w_clone: u32,
    pub w_intern_out: u32,
    pub w_localcancel: u32,
    pub w_snapshot: u32,
    pub w_hold: u32,
    /// durability choices for writes (None = keep)
    pub durs: Vec<Option<Dur>>,
    pub synth_durs: Vec<Dur>,
    pub deep_mk: bool,
    /// percentage of runs whose history gets scenario motifs spliced in
    pub motif_pct: u32,
}

impl HistCfg {
    pub fn base() -> Self {
        HistCfg {
            steps: (6, 30),
            w_set: 30,
            w_query: 50,
            w_synth: 4,
            w_burst: 0,
            w_setext: 0,
            w_acc: 0,
            w_setlru: 0,
            w_triglru: 0,
            w_trigcancel: 0,
            w_clone: 0,
            w_intern_out: 0,
            w_localcancel: 0,
            w_snapshot: 0,
            w_hold: 0,
            durs: vec![None, None, Some(Dur::Low), Some(Dur::Medium), Some(Dur::High)],
            synth_durs: vec![Dur::Low, Dur::Medium, Dur::High],
            deep_mk: true,
            motif_pct: 0,
        }
    }
}

fn lower(d: Dur) -> Dur {
    match d {
        Dur::High | Dur::Never => Dur::Medium,
        _ => Dur::Low,
    }
}
fn higher(d: Dur) -> Dur {
    match d {
        Dur::Low => Dur::Medium,
        _ => Dur::High,
    }
}

/// Scenario motifs: short write/request sequences aimed at the places where in-flight state
/// exists (a durability change with an equal value, then a change at the lower level, ...).
/// They are spliced into random histories; the surrounding steps stay random.
pub fn splice_motifs(r: &mut Rng, p: &Program, w0: &World, hist: Vec<Step>) -> Vec<Step> {
    let queryable: Vec<u16> = (0..p.nodes.len()).filter(|i| p.nodes[*i].kind.keyed_by_node() || p.nodes[*i].kind == Kind::Zero).map(|i| i as u16).collect();
    let mut read_fields: Vec<(u16, u8)> = vec![];
    for n in &p.nodes {
        for op in &n.ops {
            if let Op::In { i, f, .. } = op {
                if !read_fields.contains(&(*i, *f)) {
                    read_fields.push((*i, *f));
                }
            }
        }
    }
    if read_fields.is_empty() || queryable.is_empty() {
        return hist;
    }
    let m = p.m as u64;
    let q = |r: &mut Rng, n: u16| -> Step {
        if p.nodes[n as usize].kind.is_maker() { Step::QueryMk { n, deep: r.pct(70) } } else { Step::Query { n, arg: r.below(m) as u32 } }
    };
    let makers: Vec<u16> = queryable.iter().copied().filter(|n| p.nodes[*n as usize].kind.is_maker()).collect();
    let tops = |r: &mut Rng, out: &mut Vec<Step>| {
        let k = r.range(1, 2);
        if !makers.is_empty() && r.pct(45) {
            let n = *r.pick(&makers);
            out.push(Step::QueryMk { n, deep: true });
        }
        for j in 0..k {
            let n = if j == 0 || r.pct(50) { queryable[queryable.len() - 1 - r.usize(queryable.len().min(2))] } else { *r.pick(&queryable) };
            out.push(q(r, n));
        }
    };
    let n_motifs = r.range(1, 3);
    let mut cuts: Vec<usize> = (0..n_motifs).map(|_| r.usize(hist.len() + 1)).collect();
    cuts.sort();
    let mut cur = w0.clone();
    let mut fdur: std::collections::HashMap<(u16, u8), Dur> = Default::default();
    let mut out = vec![];
    let mut ci = 0;
    let apply = |s: &Step, cur: &mut World, fdur: &mut std::collections::HashMap<(u16, u8), Dur>| {
        if let Step::SetIn { i, f, v, d } = s {
            let old = fdur.get(&(*i, *f)).copied().unwrap_or(Dur::Low);
            if old != Dur::Never {
                cur.ins[*i as usize][*f as usize] = *v;
                if let Some(d) = d {
                    fdur.insert((*i, *f), *d);
                }
            }
        }
    };
    for (idx, s) in hist.iter().enumerate() {
        while ci < cuts.len() && cuts[ci] == idx {
            ci += 1;
            let (i, f) = *r.pick(&read_fields);
            let d0 = fdur.get(&(i, f)).copied().unwrap_or(Dur::Low);
            if d0 == Dur::Never {
                continue;
            }
            let curv = cur.ins[i as usize][f as usize];
            let other = (curv + 1 + r.below(m - 1) as u32) % p.m;
            let mut mo = vec![];
            match r.below(4) {
                0 | 1 => {
                    // durability drop (after a raise when already LOW), equal value, then a change at the lower level
                    let mut d = d0;
                    if d == Dur::Low {
                        d = *r.pick(&[Dur::Medium, Dur::High, Dur::High]);
                        mo.push(Step::SetIn { i, f, v: curv, d: Some(d) });
                        tops(r, &mut mo);
                    }
                    let v1 = if r.pct(65) { curv } else { r.below(m) as u32 };
                    mo.push(Step::SetIn { i, f, v: v1, d: Some(lower(d)) });
                    tops(r, &mut mo);
                    mo.push(Step::SetIn { i, f, v: (v1 + 1 + r.below(m - 1) as u32) % p.m, d: None });
                    tops(r, &mut mo);
                }
                2 => {
                    // durability raise with equal value, then a change
                    mo.push(Step::SetIn { i, f, v: curv, d: Some(higher(d0)) });
                    tops(r, &mut mo);
                    mo.push(Step::SetIn { i, f, v: other, d: None });
                    tops(r, &mut mo);
                }
                _ => {
                    // write the same value, request, write a different one, request
                    mo.push(Step::SetIn { i, f, v: curv, d: None });
                    tops(r, &mut mo);
                    mo.push(Step::SetIn { i, f, v: other, d: None });
                    tops(r, &mut mo);
                }
            }
            for s in &mo {
                apply(s, &mut cur, &mut fdur);
            }
            out.extend(mo);
        }
        apply(s, &mut cur, &mut fdur);
        out.push(s.clone());
    }
    out
}

pub fn gen_history(r: &mut Rng, p: &Program, c: &HistCfg) -> Vec<Step> {
    let n = r.range(c.steps.0, c.steps.1);
    let m = p.m as u64;
    let queryable: Vec<u16> = (0..p.nodes.len()).filter(|i| p.nodes[*i].kind.keyed_by_node() || p.nodes[*i].kind == Kind::Zero).map(|i| i as u16).collect();
    let refs: Vec<u16> = (0..p.nodes.len()).filter(|i| p.nodes[*i].kind == Kind::Ref).map(|i| i as u16).collect();
    let w = [
        c.w_set,
        c.w_query,
        c.w_synth,
        c.w_burst,
        if p.n_cells > 0 { c.w_setext } else { 0 },
        c.w_acc,
        c.w_setlru,
        c.w_triglru,
        c.w_trigcancel,
        c.w_clone,
        c.w_intern_out,
        c.w_localcancel,
        c.w_snapshot,
        if refs.is_empty() { 0 } else { c.w_hold },
    ];
    let tot: u32 = w.iter().sum();
    let mut out = vec![];
    // bias: top nodes are requested more often (they exercise deep verification)
    let pick_q = |r: &mut Rng| -> u16 {
        if r.pct(40) { queryable[queryable.len() - 1 - r.usize(queryable.len().min(2))] } else { *r.pick(&queryable) }
    };
    for _ in 0..n {
        let mut x = r.below(tot as u64) as u32;
        let mut which = 0;
        for (i, wi) in w.iter().enumerate() {
            if x < *wi {
                which = i;
                break;
            }
            x -= wi;
        }
        let step = match which {
            0 => Step::SetIn { i: r.usize(p.n_inputs) as u16, f: r.usize(3) as u8, v: r.below(m) as u32, d: r.pick(&c.durs).clone() },
            1 => {
                let n = pick_q(r);
                if p.nodes[n as usize].kind.is_maker() { Step::QueryMk { n, deep: c.deep_mk && r.pct(70) } } else { Step::Query { n, arg: r.below(m) as u32 } }
            }
            2 => Step::Synthetic { d: *r.pick(&c.synth_durs) },
            3 => Step::Burst { n: r.range(2, 5) as u8, d: *r.pick(&c.synth_durs) },
            4 => Step::SetExt { c: r.usize(p.n_cells) as u8, v: r.below(m) as u32, d: *r.pick(&c.synth_durs) },
            5 => Step::Accumulated { n: pick_q(r), arg: r.below(m) as u32 },
            6 => Step::SetLru { cap: r.below(5) as u8 },
            7 => Step::TriggerLru,
            8 => Step::TriggerCancel,
            9 => Step::CloneQueryDrop { n: pick_q(r), arg: r.below(m) as u32 },
            10 => Step::InternOutside { t: r.below(4) as u8, v: r.below(m) as u32 },
            11 => Step::LocalCancelQuery { n: pick_q(r), arg: r.below(m) as u32 },
            12 => Step::SnapshotRestore,
            _ => Step::Hold { n: *r.pick(&refs) },
        };
        out.push(step);
    }
    out
}

#[derive(Clone, Debug)]
pub struct CycCfg {
    pub below: (usize, usize),
    pub block: (usize, usize),
    pub above: (usize, usize),
    pub ops: (usize, usize),
    /// kinds of block nodes (weighted)
    pub block_kinds: Vec<(Kind, u32)>,
    pub outer_kinds: Vec<(Kind, u32)>,
    pub back_edge_pct: u32,
    pub bad: bool,
    pub untracked_in_block: bool,
    pub yields: bool,
    /// allow the saturation short-circuit (value-dependent but monotone control flow)
    pub ret_if_top: bool,
}

impl CycCfg {
    pub fn base() -> Self {
        CycCfg {
            below: (0, 2),
            block: (1, 5),
            above: (0, 2),
            ops: (2, 7),
            block_kinds: vec![(Kind::Fix, 3), (Kind::FixJ, 1)],
            outer_kinds: vec![(Kind::Plain, 4), (Kind::NoEq, 1)],
            back_edge_pct: 45,
            bad: false,
            untracked_in_block: false,
            yields: false,
            ret_if_top: false,
        }
    }
}

/// Cyclic program over a bit-set lattice (m = 16). Block nodes have monotone bodies in the
/// values of block callees: a register that (possibly) holds a block-derived value is "tainted"
/// and may only flow through Or/And/Ret; branches and dynamic-call indices read untainted
/// registers only, so the shape of the call graph depends on inputs alone.
pub fn gen_cyclic(r: &mut Rng, c: &CycCfg) -> Program {
    // small lattices saturate (reach top) often, which the short-circuit op needs
    let m = if c.ret_if_top { *r.pick(&[4u32, 4, 8, 16]) } else { 16u32 };
    let n_inputs = r.range(1, 3);
    let n_cells = if c.untracked_in_block { 1 } else { 0 };
    let nb = r.range(c.below.0, c.below.1);
    let nk = r.range(c.block.0, c.block.1);
    let na = r.range(c.above.0, c.above.1);
    let (lo, hi) = (nb, nb + nk);
    let n = nb + nk + na;
    let mut nodes: Vec<Node> = vec![];
    let bad_node = if c.bad { lo + r.usize(nk) } else { usize::MAX };
    let bad_guard = if c.bad { Some((r.usize(n_inputs) as u16, r.usize(3) as u8, bad_node as u16)) } else { None };
    for i in 0..n {
        let in_block = i >= lo && i < hi;
        let kind = if in_block { pick_kind(r, &c.block_kinds) } else { pick_kind(r, &c.outer_kinds) };
        let n_ops = r.range(c.ops.0, c.ops.1);
        let mut ops = vec![];
        let mut tainted = [false; NREG];
        // callable targets
        let lower: Vec<u16> = (0..i.min(if in_block { lo } else { i })).map(|j| j as u16).collect();
        let block_all: Vec<u16> = (lo..hi).map(|j| j as u16).collect();
        let block_fwd: Vec<u16> = (lo..i.min(hi)).map(|j| j as u16).collect();
        for _ in 0..n_ops {
            let d = r.usize(NREG) as u8;
            let roll = r.below(100);
            let untainted: Vec<u8> = (0..NREG as u8).filter(|x| !tainted[*x as usize]).collect();
            let op = match roll {
                0..=19 => Op::In { d, i: r.usize(n_inputs) as u16, f: r.usize(3) as u8 },
                20..=49 if in_block => {
                    // call inside the block: forward (lower index) or back edge
                    let t = if r.pct(c.back_edge_pct) || block_fwd.is_empty() { *r.pick(&block_all) } else { *r.pick(&block_fwd) };
                    tainted[d as usize] = true;
                    Op::Call { d, n: t }
                }
                20..=39 if !in_block && i >= hi && nk > 0 => {
                    tainted[d as usize] = true;
                    Op::Call { d, n: *r.pick(&block_all) }
                }
                40..=54 if !lower.is_empty() => {
                    // calls to nodes below: plain values, but keep them tainted-safe (no effect)
                    Op::Call { d, n: *r.pick(&lower) }
                }
                55..=74 => {
                    let (a, b) = (r.usize(NREG) as u8, r.usize(NREG) as u8);
                    let t = tainted[a as usize] || tainted[b as usize];
                    let o = if t || in_block { *r.pick(&[AOp::Or, AOp::And]) } else { *r.pick(&[AOp::Or, AOp::And, AOp::Xor, AOp::Add]) };
                    if t {
                        tainted[d as usize] = true;
                    }
                    Op::Arith { d, a, b, o }
                }
                75..=82 if !untainted.is_empty() => Op::IfSkip { s: *r.pick(&untainted), c: *r.pick(&[Cmp::Lt, Cmp::Eq, Cmp::Ne, Cmp::Ge]), k: r.below(m as u64) as u32, n: r.range(1, 2) as u8 },
                83..=88 if in_block && !untainted.is_empty() && block_all.len() >= 2 => {
                    tainted[d as usize] = true;
                    Op::CallDyn { d, s: *r.pick(&untainted), t: (0..2).map(|_| *r.pick(&block_all)).collect() }
                }
                89..=91 if c.untracked_in_block && in_block && !tainted[d as usize] => Op::Untracked { d, c: 0 },
                92..=93 if c.yields => Op::Yield,
                94..=97 if c.ret_if_top && in_block && tainted.iter().any(|t| *t) => {
                    let ts: Vec<u8> = (0..NREG as u8).filter(|x| tainted[*x as usize]).collect();
                    Op::RetIfTop { s: *r.pick(&ts) }
                }
                _ => Op::Const { d, c: r.below(m as u64) as u32 },
            };
            // a register overwritten by an untainted op stays conservatively tainted
            ops.push(op);
        }
        if i == bad_node {
            // guarded non-monotone step on a (likely tainted) register
            let (gi, gf, _) = bad_guard.unwrap();
            let g = 3u8;
            // padding: forward skips of the random prefix must not land inside the guarded pattern
            ops.push(Op::Const { d: 1, c: 0 });
            ops.push(Op::Const { d: 1, c: 0 });
            ops.push(Op::Call { d: 0, n: *r.pick(&block_all) });
            ops.push(Op::In { d: g, i: gi, f: gf });
            ops.push(Op::IfSkip { s: g, c: Cmp::Eq, k: 0, n: 2 });
            ops.push(Op::Const { d: 1, c: 1 });
            ops.push(Op::Arith { d: 0, a: 0, b: 1, o: AOp::Add });
            ops.push(Op::Ret { s: 0 });
        } else if r.pct(70) {
            // prefer returning a tainted register so cycles carry information
            let ts: Vec<u8> = (0..NREG as u8).filter(|x| tainted[*x as usize]).collect();
            let s = if !ts.is_empty() && r.pct(80) { *r.pick(&ts) } else { r.usize(NREG) as u8 };
            ops.push(Op::Ret { s });
        }
        nodes.push(Node { kind, ops });
    }
    Program { m, n_inputs, n_cells, nodes, fb_base: 100, blk_lo: lo as u16, blk_hi: hi as u16, bad_guard }
}
