//! Simulation worker / replayer.
//!
//!   sim run    --prop C01 --tier quick --base <seed> --from a --to b --out <dir> [--selfcheck pct]
//!   sim replay <file>            exit 1 + "REPRODUCED classes=..." if the recorded violation recurs
//!   sim show   --prop C01 --seed n

mod alias;
mod allocguard;
mod case;
mod conc;
mod db;
mod e1;
mod genr;
mod oracles;
mod prog;
#[cfg(feature = "e3")]
mod proto;
mod props;
mod refcyc;
mod refi;
mod reuse;
mod rng;
mod shrink;

use case::*;
use std::collections::{BTreeMap, HashSet};
use std::io::Write;

#[cfg(not(feature = "e3"))]
pub fn sched_yield() {}
#[cfg(feature = "e3")]
pub fn sched_yield() {
    shuttle::thread::yield_now();
}

fn arg<'a>(args: &'a [String], name: &str) -> Option<&'a str> {
    args.iter().position(|a| a == name).and_then(|i| args.get(i + 1)).map(|s| s.as_str())
}

#[global_allocator]
static GLOBAL: allocguard::Guard = allocguard::Guard;

/// C23: run a case under the quarantining allocator; only memory-safety classes count.
pub fn run_guarded(c: &Case) -> Option<RunOut> {
    let before = allocguard::counters();
    allocguard::enable(true);
    let r = run_any_inner(c);
    allocguard::flush();
    allocguard::enable(false);
    let after = allocguard::counters();
    let mut o = r?;
    let keep = ["held_reference_changed", "poison_read"];
    o.viol.retain(|v| keep.contains(&v.class.as_str()));
    if after.0 > before.0 {
        o.viol("write_after_free", 0, format!("{} freed block(s) were written to while quarantined", after.0 - before.0));
    }
    if after.1 > before.1 {
        o.viol("double_free", 0, format!("{} block(s) were freed while still quarantined", after.1 - before.1));
    }
    let pr = db::POISON_READS.swap(0, std::sync::atomic::Ordering::SeqCst);
    if pr > 0 {
        o.viol("poison_read", 0, format!("{pr} value(s) read from salsa carried the poison pattern of freed memory"));
    }
    o.add("blocks_quarantined", after.4 - before.4);
    Some(o)
}

/// live bytes that one more execution of `c` leaves behind (0 for a leak-free database)
pub fn leak_delta(c: &Case) -> i64 {
    // several repetitions: other threads of the process (the heartbeat) allocate transiently, a
    // leak grows every time
    allocguard::enable(true);
    let mut live = vec![];
    for _ in 0..4 {
        let _ = run_any_inner(c);
        allocguard::flush();
        live.push(allocguard::counters().2);
    }
    allocguard::enable(false);
    live.windows(2).map(|w| w[1] - w[0]).min().unwrap_or(0)
}

/// number of case executions started by this process (heartbeat for the driver's hang watchdog)
pub static PROGRESS: std::sync::atomic::AtomicU64 = std::sync::atomic::AtomicU64::new(0);

pub fn run_any(c: &Case) -> Option<RunOut> {
    PROGRESS.fetch_add(1, std::sync::atomic::Ordering::SeqCst);
    if c.property == "C23" {
        return run_guarded(c);
    }
    run_any_inner(c)
}

pub fn run_any_inner(c: &Case) -> Option<RunOut> {
    db::IDENT2_MISMATCH.store(0, std::sync::atomic::Ordering::SeqCst);
    let r = std::panic::catch_unwind(std::panic::AssertUnwindSafe(|| match c.engine.as_str() {
        #[cfg(feature = "e3")]
        "e3" => conc::run_conc(c),
        _ => e1::run_case(c),
    }));
    let mut o = r.ok()?;
    let im = db::IDENT2_MISMATCH.swap(0, std::sync::atomic::Ordering::SeqCst);
    if im > 0 {
        o.viol("struct_identity_fields_mixed", 0, format!("{im} read(s) of a tracked struct returned identity fields that never belonged to one struct (ident2 != f(ident))"));
    }
    Some(o)
}

fn main() {
    let args: Vec<String> = std::env::args().collect();
    // silence panic messages of expected/injected panics; VERIF_SHOWPANIC=1 shows them
    if std::env::var("VERIF_SHOWPANIC").is_err() {
        std::panic::set_hook(Box::new(|_| {}));
    }
    match args.get(1).map(|s| s.as_str()) {
        Some("run") => cmd_run(&args),
        Some("replay") => cmd_replay(&args),
        Some("show") => {
            let prop = arg(&args, "--prop").unwrap();
            let seed: u64 = arg(&args, "--seed").unwrap().parse().unwrap();
            let tier = if arg(&args, "--tier") == Some("thorough") { props::Tier::Thorough } else { props::Tier::Quick };
            let c = props::make_case(prop, seed, tier);
            println!("{}", serde_json::to_string_pretty(&c).unwrap());
            let o = run_any(&c);
            eprintln!("{:?}", o.map(|o| (o.viol, o.stats, o.digest)));
        }
        Some("gen") => {
            // print the generated case of a seed without running it
            let prop = arg(&args, "--prop").unwrap();
            let seed: u64 = arg(&args, "--seed").unwrap().parse().unwrap();
            let tier = if arg(&args, "--tier") == Some("thorough") { props::Tier::Thorough } else { props::Tier::Quick };
            let c = props::make_case(prop, seed, tier);
            println!("{}", serde_json::to_string_pretty(&c).unwrap());
        }
        Some("rule") => println!("{}", props::info(&args[2]).rule),
        _ => {
            eprintln!("usage: sim run|replay|show ...");
            std::process::exit(2);
        }
    }
}

/// Process-global lazily initialised state behind the scheduling seam (ingredient caches,
/// EMPTY_CYCLE_HEADS, max_parallelism) makes the first execution in a process differ from later
/// ones by a few scheduling points: every worker and every replay process first runs a fixed
/// warm-up that touches every salsa item and a cycle.
fn warm_up() {
    #[cfg(feature = "e3")]
    {
        db::warm_up_all_items();
        for p in ["C16", "C18", "C08", "C24", "C20"] {
            for s in 0..3 {
                let c = props::make_case(p, 0xABCD00 + s, props::Tier::Quick);
                let _ = run_any(&c);
            }
        }
    }
}

fn cmd_replay(args: &[String]) {
    warm_up();
    let path = &args[2];
    let txt = std::fs::read_to_string(path).expect("read replay file");
    let c: Case = serde_json::from_str(&txt).expect("parse replay file");
    if c.expect == vec!["leak".to_string()] {
        let d = leak_delta(&c);
        if d > 0 {
            println!("REPRODUCED property={} classes=leak growth_bytes={d}", c.property);
            std::process::exit(1);
        }
        println!("NOT-REPRODUCED property={} leak growth {d}", c.property);
        return;
    }
    let Some(o) = run_any(&c) else {
        println!("HARNESS-ERROR replay panicked in the harness");
        std::process::exit(2);
    };
    let classes = o.classes();
    for v in &o.viol {
        println!("violation class={} step={} {}", v.class, v.step, v.detail);
    }
    let same = c.expect.is_empty() && !classes.is_empty() || c.expect.iter().any(|e| classes.contains(e));
    if same {
        println!("REPRODUCED property={} classes={} digest={:016x}", c.property, classes.join(","), o.digest);
        std::process::exit(1);
    }
    println!("NOT-REPRODUCED property={} digest={:016x}", c.property, o.digest);
}

fn cmd_run(args: &[String]) {
    let prop = arg(args, "--prop").expect("--prop");
    let tier = if arg(args, "--tier") == Some("thorough") { props::Tier::Thorough } else { props::Tier::Quick };
    let base: u64 = arg(args, "--base").unwrap_or("0").parse().unwrap();
    let from: u64 = arg(args, "--from").unwrap_or("0").parse().unwrap();
    let to: u64 = arg(args, "--to").unwrap_or("100").parse().unwrap();
    let out_dir = arg(args, "--out").expect("--out");
    let selfcheck: u64 = arg(args, "--selfcheck").unwrap_or("2").parse().unwrap();
    let max_s: f64 = arg(args, "--max-s").unwrap_or("100000").parse().unwrap();
    // violation classes recorded as known findings for this property (runs that show only
    // these are counted and sampled, not minimised, and do not stop the worker)
    let known: Vec<String> = arg(args, "--known").map(|s| s.split(',').filter(|x| !x.is_empty()).map(|x| x.to_string()).collect()).unwrap_or_default();
    let mut known_hits: BTreeMap<String, u64> = BTreeMap::new();
    let mut known_samples: Vec<serde_json::Value> = vec![];
    let cur_path = format!("{out_dir}/cur.{}", std::process::id());
    std::fs::create_dir_all(out_dir).unwrap();
    // heartbeat: the driver kills a worker whose heartbeat file stops changing (a run that neither
    // finishes nor reaches a scheduling point); minimisation keeps the counter moving
    {
        let hb = format!("{out_dir}/hb.{}", std::process::id());
        std::thread::spawn(move || loop {
            let _ = std::fs::write(&hb, format!("{}\n", PROGRESS.load(std::sync::atomic::Ordering::SeqCst)));
            std::thread::sleep(std::time::Duration::from_millis(1000));
        });
    }
    let t0 = std::time::Instant::now();
    let mut stats: BTreeMap<String, u64> = BTreeMap::new();
    let mut hashes: HashSet<u64> = HashSet::new();
    let mut nontrivial_hashes: HashSet<u64> = HashSet::new();
    let mut classes_seen: BTreeMap<String, u64> = BTreeMap::new();
    let mut runs = 0u64;
    let mut steps = 0u64;
    let mut revisions = 0u64;
    let mut violations = vec![];
    let mut samples = vec![];
    let mut selfcheck_runs = 0u64;
    let mut harness_errors = vec![];
    let mut digest_all = 0u64;
    let mut digest_file = arg(args, "--digests").map(|p| std::fs::File::create(p).expect("digest file"));
    warm_up();
    let mut stop_after_sched_failure = false;
    for n in from..to {
        if stop_after_sched_failure {
            break;
        }
        if t0.elapsed().as_secs_f64() > max_s {
            break;
        }
        let seed = base.wrapping_mul(1 << 20).wrapping_add(n);
        // attributable aborts: note the seed before running it
        let _ = std::fs::write(&cur_path, format!("{prop} {seed}\n"));
        let c0 = props::make_case(prop, seed, tier);
        if !c0.prog.valid() {
            harness_errors.push(format!("seed {seed}: generator produced an invalid program"));
            continue;
        }
        // fault enumeration: expand the base case into one case per injection point
        let mut variants: Vec<Case> = vec![];
        if prop == "C22" {
            db::fault::RECORD.store(1, std::sync::atomic::Ordering::SeqCst);
            let base = run_any(&c0);
            db::fault::RECORD.store(0, std::sync::atomic::Ordering::SeqCst);
            let kinds: Vec<prog::Cb> = db::fault::KINDS.lock().unwrap_or_else(|e| e.into_inner()).clone();
            match base {
                Some(b) if b.viol.is_empty() => {
                    let mut r = rng::Rng::new(seed ^ 0xC22);
                    let mut chosen: Vec<u64> = vec![];
                    // every callback of the rare classes (capped), a sample of body ops
                    let evk: Vec<u8> = db::fault::EVKINDS.lock().unwrap_or_else(|e| e.into_inner()).clone();
                    // event callbacks: the rare events (discards, slot reuse, cycle events) first
                    let rare = |k: u8| {
                        k == db::SK::DidDiscard as u8 || k == db::SK::WillDiscardStaleOutput as u8 || k == db::SK::DidReuseInterned as u8 || k == db::SK::DidDiscardAccumulated as u8 || k == db::SK::WillIterateCycle as u8 || k == db::SK::DidFinalizeCycle as u8 || k == db::SK::DidSetCancellationFlag as u8 || k == 254
                    };
                    let rare_ev: Vec<u64> = (0..kinds.len()).filter(|i| kinds[*i] == prog::Cb::Event && rare(evk[*i])).map(|i| i as u64).collect();
                    let rare_cap = if c0.class.starts_with("ride:") { 24 } else { 10 };
                    if rare_ev.len() <= rare_cap {
                        chosen.extend(rare_ev);
                    } else {
                        for _ in 0..rare_cap {
                            chosen.push(*r.pick(&rare_ev));
                        }
                    }
                    for class in [prog::Cb::ValEq, prog::Cb::ValHash, prog::Cb::CycleFn, prog::Cb::CycleInitial, prog::Cb::Event] {
                        let idx: Vec<u64> = kinds.iter().enumerate().filter(|(_, k)| **k == class).map(|(i, _)| i as u64).collect();
                        let cap = if class == prog::Cb::Event { 3 } else { 6 };
                        if idx.len() <= cap {
                            chosen.extend(idx);
                        } else {
                            for _ in 0..cap {
                                chosen.push(*r.pick(&idx));
                            }
                        }
                    }
                    let body: Vec<u64> = kinds.iter().enumerate().filter(|(_, k)| **k == prog::Cb::BodyOp).map(|(i, _)| i as u64).collect();
                    let nb = if tier == props::Tier::Thorough { 24 } else { 12 };
                    if body.len() <= nb {
                        chosen.extend(body);
                    } else {
                        for _ in 0..nb {
                            chosen.push(*r.pick(&body));
                        }
                    }
                    chosen.sort();
                    chosen.dedup();
                    for k in chosen {
                        let mut c = c0.clone();
                        c.panic_at = Some(k);
                        c.class = format!("{}:{:?}", c.class, kinds[k as usize]);
                        variants.push(c);
                    }
                    *stats.entry("base_histories".into()).or_insert(0) += 1;
                    *stats.entry("callbacks_in_base_histories".into()).or_insert(0) += kinds.len() as u64;
                }
                Some(b) => {
                    // the fault-free base run itself shows a violation: report it as is
                    let _ = b;
                    variants.push(c0.clone());
                }
                None => {
                    harness_errors.push(format!("seed {seed}: harness panic in base run"));
                    continue;
                }
            }
        } else {
            variants.push(c0);
        }
        for c in variants {
        let Some(o) = run_any(&c) else {
            harness_errors.push(format!("seed {seed}: harness panic"));
            continue;
        };
        runs += 1;
        steps += o.steps;
        revisions += o.revisions;
        digest_all = rng::hash64(digest_all, o.digest);
        if let Some(f) = digest_file.as_mut() {
            use std::io::Write as _;
            let _ = writeln!(f, "{seed} {} {:016x}", c.panic_at.map(|k| k as i64).unwrap_or(-1), o.digest);
        }
        for (k, v) in &o.stats {
            *stats.entry(k.to_string()).or_insert(0) += v;
            if *v > 0 {
                *stats.entry(format!("runs_with_{k}")).or_insert(0) += 1;
            }
        }
        *classes_seen.entry(c.class.clone()).or_insert(0) += 1;
        let h = {
            use std::hash::{Hash, Hasher};
            let mut hh = std::collections::hash_map::DefaultHasher::new();
            c.prog.hash(&mut hh);
            c.hist.hash(&mut hh);
            c.panic_at.hash(&mut hh);
            if let Some(cc) = &c.conc {
                // concurrent runs: a case is (program, rounds, recorded schedule)
                cc.rounds.hash(&mut hh);
                o.choices.hash(&mut hh);
            }
            hh.finish()
        };
        hashes.insert(h);
        if props::nontrivial(&c, &o) {
            nontrivial_hashes.insert(h);
        }
        if samples.len() < 2 && props::nontrivial(&c, &o) {
            samples.push(serde_json::json!({"seed": seed, "class": c.class, "program": c.prog, "history": c.hist, "knobs": c.knobs}));
        }
        // (single-handle cases only: a concurrent case leaves pooled threads and scheduler state behind)
        if prop == "C23" && c.engine != "e3" && n % 50 == 0 {
            let d = leak_delta(&c);
            *stats.entry("leak_probes".into()).or_insert(0) += 1;
            if d > 0 {
                *stats.entry("leak_probe_growth_bytes".into()).or_insert(0) += d as u64;
                let mut lc = c.clone();
                lc.expect = vec!["leak".into()];
                let dir = format!("{out_dir}/replays");
                std::fs::create_dir_all(&dir).unwrap();
                let path = format!("{dir}/{prop}-{seed}.leak.json");
                std::fs::write(&path, serde_json::to_string_pretty(&lc).unwrap()).unwrap();
                violations.push(serde_json::json!({"seed": seed, "classes": ["leak"], "replay": path, "detail": format!("live bytes grow by {d} per execution after everything was dropped"), "signature": format!("{prop}|leak")}));
            }
        }
        if selfcheck > 0 && n % 100 < selfcheck {
            selfcheck_runs += 1;
            let o2 = run_any(&c);
            if o2.as_ref().map(|x| x.digest) != Some(o.digest) {
                harness_errors.push(format!("seed {seed}: determinism self-check mismatch"));
            }
        }
        if !o.viol.is_empty() && o.classes().iter().all(|c| known.contains(c)) {
            for c in o.classes() {
                *known_hits.entry(c).or_insert(0) += 1;
            }
            if known_samples.len() < 1 {
                let mut kc = c.clone();
                kc.expect = o.classes();
                let dir = format!("{out_dir}/replays");
                std::fs::create_dir_all(&dir).unwrap();
                let path = format!("{dir}/{prop}-{seed}.known.json");
                std::fs::write(&path, serde_json::to_string_pretty(&kc).unwrap()).unwrap();
                known_samples.push(serde_json::json!({"seed": seed, "classes": kc.expect, "replay": path, "detail": o.viol.first().map(|v| v.detail.clone()), "signature": signature(&kc, &o)}));
            }
        } else if !o.viol.is_empty() {
            // minimise with respect to the classes that are not known findings
            let classes: Vec<String> = o.classes().into_iter().filter(|c| !known.contains(c)).collect();
            let small = shrink::shrink(&c, &classes, &run_any, 3000);
            let mut small = small;
            let o2 = run_any(&small).unwrap();
            if let Some(cc) = small.conc.as_mut() {
                // the replay file carries the recorded schedule
                cc.choices = o2.choices.clone();
                if o2.classes().iter().any(|c| c == "deadlock" || c == "livelock") {
                    stop_after_sched_failure = true;
                }
            }
            small.expect = o2.classes().into_iter().filter(|x| classes.contains(x)).collect();
            let dir = format!("{out_dir}/replays");
            std::fs::create_dir_all(&dir).unwrap();
            let tag = c.panic_at.map(|k| format!("-k{k}")).unwrap_or_default();
            let path = format!("{dir}/{prop}-{seed}{tag}.json");
            std::fs::write(&path, serde_json::to_string_pretty(&small).unwrap()).unwrap();
            let full = format!("{dir}/{prop}-{seed}{tag}.full.json");
            std::fs::write(&full, serde_json::to_string_pretty(&c).unwrap()).unwrap();
            violations.push(serde_json::json!({"seed": seed, "classes": small.expect, "replay": path, "detail": o2.viol.first().map(|v| v.detail.clone()), "signature": signature(&small, &o2)}));
        }
        }
        if violations.len() >= 5 {
            break;
        }
    }
    let _ = std::fs::remove_file(&cur_path);
    let res = serde_json::json!({
        "prop": prop, "from": from, "to": to, "runs": runs, "steps": steps, "revisions": revisions,
        "stats": stats, "classes": classes_seen, "violations": violations, "samples": samples,
        "known_hits": known_hits, "known_samples": known_samples,
        "selfcheck_runs": selfcheck_runs, "harness_errors": harness_errors, "wall_s": t0.elapsed().as_secs_f64(),
        "digest": format!("{digest_all:016x}"),
    });
    let mut f = std::fs::File::create(format!("{out_dir}/result.json")).unwrap();
    f.write_all(serde_json::to_string(&res).unwrap().as_bytes()).unwrap();
    let dump = |name: &str, hs: &HashSet<u64>| {
        let mut f = std::fs::File::create(format!("{out_dir}/{name}")).unwrap();
        let mut v: Vec<u64> = hs.iter().copied().collect();
        v.sort();
        let mut buf = Vec::with_capacity(v.len() * 8);
        for x in v {
            buf.extend_from_slice(&x.to_le_bytes());
        }
        f.write_all(&buf).unwrap();
    };
    dump("hashes.bin", &hashes);
    dump("nontrivial.bin", &nontrivial_hashes);
}

/// Stable signature of a minimised violation, used to match known findings: the property and
/// the (diagnosis-refined) violation classes.
pub fn signature(c: &Case, o: &RunOut) -> String {
    let mut classes = o.classes();
    classes.sort();
    format!("{}|{}", c.property, classes.join("+"))
}
