//! C07: when a slot is reused with a higher generation, every memo attached to the old
//! generation must have been discarded before anything is computed for the new one.

use crate::case::*;
use crate::db::*;
use crate::oracles::{Oracle, StepInfo};
use crate::refi::World;
use std::collections::{BTreeSet, HashMap};

#[derive(Default)]
pub struct AliasOracle {
    /// slot index -> highest generation observed
    pub seen_gen: HashMap<u32, u32>,
    /// memo keys (function ingredient, full id) that executed at least once and are not discarded
    pub live_memos: BTreeSet<(u32, u64)>,
    pub inner: Option<Box<dyn Oracle>>,
}

fn split(id: u64) -> (u32, u32) {
    ((id & 0xFFFF_FFFF) as u32, (id >> 32) as u32)
}

impl AliasOracle {
    fn observe(&mut self, id: u64, step: usize, out: &mut RunOut) {
        let (idx, g) = split(id);
        let cur = self.seen_gen.entry(idx).or_insert(g);
        if g > *cur {
            *cur = g;
            out.bump("slot_generation_bumped");
            let stale: Vec<(u32, u64)> = self.live_memos.iter().filter(|(_, mid)| split(*mid).0 == idx && split(*mid).1 < g).copied().collect();
            for (ing, mid) in stale {
                out.viol("memo_survived_slot_reuse", step, format!("slot {idx} reused with generation {g} while the memo (ingredient {ing}, id {mid:#x}) of an older generation was never discarded"));
                self.live_memos.remove(&(ing, mid));
            }
        }
    }
}

impl Oracle for AliasOracle {
    fn before_mut(&mut self, db: &SimDatabase, step: usize, out: &mut RunOut) {
        if let Some(i) = self.inner.as_mut() {
            i.before_mut(db, step, out);
        }
    }
    fn after_step(&mut self, db: &SimDatabase, world: &World, step: usize, info: &StepInfo, evs: &[Ev], out: &mut RunOut) {
        for e in evs {
            match e {
                Ev::Salsa { k: SK::WillExecute, ing, id, .. } => {
                    self.live_memos.insert((*ing, *id));
                }
                Ev::Salsa { k: SK::DidDiscard, ing, id, .. } => {
                    self.live_memos.remove(&(*ing, *id));
                }
                Ev::NewTs { id, .. } | Ev::Intern { id, .. } => self.observe(*id, step, out),
                Ev::Salsa { k: SK::DidReuseInterned, .. } => out.bump("interned_slot_reused"),
                _ => {}
            }
        }
        if let Some(i) = self.inner.as_mut() {
            i.after_step(db, world, step, info, evs, out);
        }
    }
    fn at_end(&mut self, db: Option<SimDatabase>, world: &World, out: &mut RunOut) {
        match self.inner.as_mut() {
            Some(i) => i.at_end(db, world, out),
            None => drop(db),
        }
    }
}
