//! E1 — single-handle history simulator. Drives a history against the real database and the
//! reference in lock-step; evaluates oracles while the run proceeds.

use crate::case::*;
use crate::db::*;
use crate::prog::*;
use crate::refi::{Abort, Eval, QKey, World};
use crate::rng::{hash64, hash_str};
use std::any::Any;
use std::panic::{AssertUnwindSafe, catch_unwind};
use std::sync::atomic::Ordering::SeqCst;

#[derive(Debug, Clone, PartialEq, Eq)]
pub enum PK {
    Injected(u64, Cb),
    Cancelled(String),
    Msg(String),
}

pub fn panic_kind(p: &Box<dyn Any + Send>) -> PK {
    if let Some(i) = p.downcast_ref::<fault::Injected>() {
        PK::Injected(i.0, i.1)
    } else if let Some(c) = p.downcast_ref::<salsa::Cancelled>() {
        PK::Cancelled(format!("{c:?}"))
    } else if let Some(s) = p.downcast_ref::<String>() {
        PK::Msg(s.clone())
    } else if let Some(s) = p.downcast_ref::<&'static str>() {
        PK::Msg(s.to_string())
    } else {
        PK::Msg("<non-string payload>".into())
    }
}

/// Result of a top-level request, in a comparable form.
#[derive(Debug, Clone, PartialEq, Eq)]
pub struct Obs {
    pub v: u32,
    /// for maker nodes: (ident, t0, t1, on_ts, spec) of each returned handle (deep parts optional)
    pub ts: Vec<[Option<u32>; 5]>,
    /// for Ref nodes: the whole vector
    pub vec: Vec<u32>,
    /// for maker nodes: (type, value read through the handle) of each returned interned handle
    pub its: Vec<(usize, u32)>,
}

pub struct E1<'c> {
    pub case: &'c Case,
    pub db: Option<SimDatabase>,
    pub world: World,
    pub out: RunOut,
    pub step: usize,
    /// (input, field) frozen by NEVER_CHANGE
    pub never: std::collections::BTreeSet<(usize, usize)>,
    pub oracles: Box<dyn crate::oracles::Oracle>,
    pub queries: u64,
    /// a cycle / non-convergence panic happened in the current revision (its heads stay
    /// poisoned until the next revision: requests involving them may see PropagatedPanic)
    pub cycle_panicked_in_rev: bool,
    pub fb_defect_seen: bool,
    /// fault injection bookkeeping: the plan fired in the current step / a poisoned cycle head was
    /// met after a fault in this revision
    pub injected_now: bool,
    pub poisoned_now: bool,
    pub injected_in_rev: bool,
    pub last_fault_cb: Option<Cb>,
    /// a recorded finding has manifested: its after-effects are unspecified, stop the run
    pub stop_run: bool,
    pub restored_ts_stale: bool,
    /// references returned by q_ref that are held until the next mutable borrow (address, copy)
    pub held: Vec<(usize, usize, Vec<u32>)>,
    /// salsa keys of function memos whose last execution asked for q_spec(..) (C10 diagnosis)
    pub spec_readers: std::collections::BTreeSet<(u32, u64)>,
    pub spec_reader_defect_seen: bool,
    /// cyclic programs: reference values of every world in which a request was made (oldest first)
    /// a request in non-monotone mode returned a value instead of panicking: that value is not a
    /// function of the inputs, so what dependents memoized from it is unspecified from then on
    pub bad_converged_seen: bool,
    pub mixed_cycle_seen: bool,
    /// key ids of memos validated (not executed) in a step in which a cycle iterated (per revision)
    pub validated_during_iteration: std::collections::BTreeSet<u64>,
    /// C26: last (ident, t0, t1) each struct id was created with, across steps
    /// C10: the assigned memo of some q_spec key was discarded earlier in the run (specified -> computed)
    pub spec_switch_seen: bool,
    pub ts_created: std::collections::HashMap<u64, (u32, u32, u32)>,
    /// C26: after a restore, a struct id was created again with other field values
    pub ts_changed_after_restore: bool,
    pub past_vals: Vec<Vec<u32>>,
    /// nodes that, in some world of this run in which a request was made, reached a block member
    /// that reads untracked state and lies on (or reaches) a cycle
    pub untracked_cycle_reach: std::collections::BTreeSet<usize>,
    /// fixpoint programs: what the members' memos recorded right before each write (step, infos)
    pub memo_snapshots: Vec<(usize, Vec<MemoInfo>)>,
}

pub fn expected_obs(ev: &mut Eval, prog: &Program, n: usize, arg: u32, deep: bool) -> Result<Obs, Abort> {
    let d = ev.eval_node(n, arg);
    let mut o = Obs { v: d.v, ts: vec![], vec: vec![], its: vec![] };
    match prog.nodes[n].kind {
        Kind::Ref => {
            o.vec = vec![d.v];
            o.vec.extend_from_slice(&d.regs);
        }
        k if k.is_maker() => {
            let on_ts = prog.node_of_kind(Kind::OnTs).or(prog.node_of_kind(Kind::POnTs));
            let spec = prog.node_of_kind(Kind::Spec);
            for h in &d.ts {
                let t = ev.arena[*h].clone();
                let mut row = [Some(t.id.ident), Some(t.t0), Some(t.t1), None, None];
                if deep {
                    if let Some(n) = on_ts {
                        row[3] = Some(ev.eval_key(QKey::OnTs(n, t.id.clone())).v);
                    }
                    if let Some(n) = spec {
                        row[4] = Some(match ev.arena[*h].spec {
                            Some(v) => v,
                            None => ev.eval_key(QKey::OnTs(n, t.id.clone())).v,
                        });
                    }
                }
                o.ts.push(row);
            }
            o.its = d.it.clone();
        }
        _ => {}
    }
    match ev.abort.clone() {
        Some(a) => Err(a),
        None => Ok(o),
    }
}

pub fn observe(db: &dyn SimDb, n: usize, arg: u32, deep: bool) -> Obs {
    let sh = db.sh();
    let prog = &sh.prog;
    match prog.nodes[n].kind {
        Kind::Ref => {
            let v = q_ref(db, sh.key(n));
            Obs { v: v[0], ts: vec![], vec: v.clone(), its: vec![] }
        }
        Kind::Mk => {
            let o = q_mk(db, sh.key(n));
            let mut rows = vec![];
            for h in &o.hs {
                let mut row = [Some(ts_ident(db, h)), Some(h.t0(db).0), Some(h.t1(db).0), None, None];
                if deep {
                    if prog.node_of_kind(Kind::OnTs).is_some() {
                        row[3] = Some(q_on_ts(db, *h).0);
                    }
                    if prog.node_of_kind(Kind::Spec).is_some() {
                        row[4] = Some(q_spec(db, *h).0);
                    }
                }
                rows.push(row);
            }
            let its = o.its.iter().map(|h| (h.ty(), h.v(db))).collect();
            Obs { v: o.v.0, ts: rows, vec: vec![], its }
        }
        _ => Obs { v: request(db, n, arg), ts: vec![], vec: vec![], its: vec![] },
    }
}

impl<'c> E1<'c> {
    pub fn new(case: &'c Case) -> Self {
        let world: World = (&case.world).into();
        fault::reset();
        fault::HASH_MOD.store(case.knobs.hash_mod, SeqCst);
        fault::MASK.store(case.fault_mask, SeqCst);
        let db = SimDatabase::new(&case.prog, &world);
        let oracles = crate::oracles::for_case(case);
        E1 { case, db: Some(db), world, out: RunOut::default(), step: 0, never: Default::default(), oracles, queries: 0, cycle_panicked_in_rev: false, fb_defect_seen: false, injected_now: false, poisoned_now: false, injected_in_rev: false, last_fault_cb: None, stop_run: false, restored_ts_stale: false, held: vec![], spec_readers: Default::default(), spec_reader_defect_seen: false, spec_switch_seen: false, ts_created: Default::default(), ts_changed_after_restore: false, bad_converged_seen: false, mixed_cycle_seen: false, validated_during_iteration: Default::default(), past_vals: vec![], memo_snapshots: vec![], untracked_cycle_reach: Default::default() }
    }

    fn db(&self) -> &SimDatabase {
        self.db.as_ref().unwrap()
    }
    fn dbm(&mut self) -> &mut SimDatabase {
        self.db.as_mut().unwrap()
    }

    fn digest_events(&mut self, evs: &[Ev]) {
        let mut h = self.out.digest;
        for e in evs {
            h = e.digest(h);
        }
        self.out.digest = h;
    }

    /// which function memos read q_spec(..) in their latest execution
    fn track_spec_readers(&mut self, evs: &[Ev]) {
        let Some(spec_node) = self.case.prog.node_of_kind(Kind::Spec) else { return };
        let mut stack: Vec<(u32, u64)> = vec![];
        let mut pending: Option<(u32, u64)> = None;
        for e in evs {
            match e {
                Ev::Salsa { k: SK::WillExecute, ing, id, .. } => pending = Some((*ing, *id)),
                Ev::Exec { .. } => {
                    let k = pending.take().unwrap_or((u32::MAX, 0));
                    self.spec_readers.remove(&k);
                    stack.push(k);
                }
                Ev::ExecEnd { .. } => {
                    stack.pop();
                }
                Ev::RdOnTs { node, .. } if *node == spec_node => {
                    if let Some(k) = stack.last() {
                        self.spec_readers.insert(*k);
                    }
                }
                // a stale reader memo stays in place and can surface in any later request
                Ev::Salsa { k: SK::DidValidateMemo, ing, id, .. } if self.spec_readers.contains(&(*ing, *id)) && self.out.revisions > 0 => {
                    self.spec_reader_defect_seen = true;
                }
                _ => {}
            }
        }
    }

    /// Drain the event log, feed the oracles, fold into the digest.
    fn drain(&mut self, what: &crate::oracles::StepInfo) {
        let evs = self.db().shared.take_log();
        self.track_spec_readers(&evs);
        self.note_validations(&evs);
        if !self.spec_switch_seen && self.case.prog.node_of_kind(Kind::Spec).is_some() {
            let db = self.db();
            if evs.iter().any(|ev| matches!(ev, Ev::Salsa { k: SK::WillDiscardStaleOutput, ing, .. } if salsa::Database::ingredient_debug_name(db, salsa::verif::ingredient_index_from_u32(*ing)) == "q_spec")) {
                self.spec_switch_seen = true;
            }
        }
        let restored_already = self.out.stats.get("restores").copied().unwrap_or(0) > 0;
        if !restored_already {
            for ev in &evs {
                if let Ev::NewTs { id, ident, t0, t1, .. } = ev {
                    self.ts_created.insert(*id, (*ident, *t0, *t1));
                }
            }
        }
        if restored_already && !self.restored_ts_stale {
            // evidence of the recorded C26 finding can appear in a step whose own result happens
            // to be right: a struct (re-)created with one field value and read back with another
            for ev in &evs {
                match ev {
                    Ev::NewTs { id, ident, t0, t1, .. } => {
                        if let Some(old) = self.ts_created.insert(*id, (*ident, *t0, *t1)) {
                            if old != (*ident, *t0, *t1) {
                                self.ts_changed_after_restore = true;
                            }
                        }
                    }
                    Ev::RdTs { id, f, v } => {
                        if let Some((ident, t0, t1)) = self.ts_created.get(id) {
                            if (*f == 0 && v != ident) || (*f == 1 && v != t0) || (*f == 2 && v != t1) {
                                self.restored_ts_stale = true;
                            }
                        }
                    }
                    _ => {}
                }
            }
        }
        self.digest_events(&evs);
        if std::env::var("VERIF_TRACE").is_ok() {
            eprintln!("--- step {} {:?}", self.step, self.case.hist.get(self.step));
            for e in &evs {
                eprintln!("    {e:?}");
            }
        }
        for e in &evs {
            if let Ev::Salsa { k, .. } = e {
                let name: &'static str = match k {
                    SK::WillExecute => "ev_will_execute",
                    SK::DidValidateMemo => "ev_did_validate_memo",
                    SK::DidDiscard => "ev_did_discard",
                    SK::WillDiscardStaleOutput => "ev_discard_stale_output",
                    SK::DidIntern => "ev_did_intern",
                    SK::DidReuseInterned => "ev_did_reuse_interned",
                    SK::DidValidateInterned => "ev_did_validate_interned",
                    SK::WillIterateCycle => "ev_will_iterate_cycle",
                    SK::DidFinalizeCycle => "ev_did_finalize_cycle",
                    SK::DidDiscardAccumulated => "ev_discard_accumulated",
                    _ => "ev_other",
                };
                self.out.bump(name);
            }
        }
        let db = self.db.as_ref().unwrap();
        self.oracles.after_step(db, &self.world, self.step, what, &evs, &mut self.out);
    }

    fn note_validations(&mut self, evs: &[Ev]) {
        if evs.iter().any(|ev| matches!(ev, Ev::Salsa { k: SK::WillIterateCycle | SK::DidFinalizeCycle, .. })) {
            for ev in evs {
                if let Ev::Salsa { k: SK::DidValidateMemo, id, .. } = ev {
                    self.validated_during_iteration.insert(*id);
                }
            }
        }
    }

    fn new_revision_note(&mut self) {
        self.validated_during_iteration.clear();
        self.cycle_panicked_in_rev = false;
        self.injected_in_rev = false;
        self.out.revisions += 1;
    }

    /// A top-level read request with the universal value oracle.
    pub fn do_query(&mut self, n: usize, arg: u32, deep: bool, via_clone: bool) {
        self.queries += 1;
        let prog = &self.case.prog;
        let exp: Result<Obs, Abort>;
        // cyclic programs: outcome classes beyond "exact"
        let mut either_cycle_panic = false;
        let mut must_panic = false;
        let mut bad_mode = false;
        let mut cr_opt = None;
        if prog.is_cyclic() {
            let cr = crate::refcyc::CycRef::solve(prog, &self.world);
            bad_mode = cr.bad_active(n);
            either_cycle_panic = cr.panic_possible(n);
            must_panic = either_cycle_panic && cr.scratch_panics(n) && self.queries == 1;
            exp = if must_panic { Err(Abort::Cycle) } else { Ok(Obs { v: cr.vals[n], ts: vec![], vec: vec![], its: vec![] }) };
            if bad_mode {
                self.out.bump("bad_mode_requests");
            }
            if cr.on_cycle.iter().any(|x| !prog.nodes[*x].kind.is_cycle_kind()) {
                self.mixed_cycle_seen = true;
            }
            if self.past_vals.last() != Some(&cr.vals) {
                self.past_vals.push(cr.vals.clone());
            }
            if prog.n_cells > 0 {
                for x in 0..prog.nodes.len() {
                    let reach = cr.reachable(x);
                    if reach.iter().any(|y| cr.untracked[*y] && prog.in_block(*y)) && reach.iter().any(|h| cr.on_cycle.contains(h)) {
                        self.untracked_cycle_reach.insert(x);
                    }
                }
            }
            cr_opt = Some(cr);
        } else {
            let mut ev = Eval::new(prog, &self.world);
            exp = expected_obs(&mut ev, prog, n, arg, deep);
        }
        let got = if via_clone {
            let db2 = self.db().clone();
            let r = catch_unwind(AssertUnwindSafe(|| observe(&db2, n, arg, deep)));
            drop(db2);
            r
        } else {
            let db = self.db();
            catch_unwind(AssertUnwindSafe(|| observe(db, n, arg, deep)))
        };
        let step = self.step;
        let mut info = crate::oracles::StepInfo::query(n, arg);
        let got_pk = got.as_ref().err().map(|p| panic_kind(p));
        if let Some(PK::Injected(_, cb)) = got_pk {
            self.last_fault_cb = Some(cb);
            self.out.digest = hash_str(self.out.digest, "injected");
            self.out.bump("fault_panic_reached_caller");
            info.injected = true;
            self.injected_now = true;
        } else if matches!(&got_pk, Some(PK::Cancelled(c)) if c == "PropagatedPanic") && self.injected_in_rev && prog.is_cyclic() {
            self.out.digest = hash_str(self.out.digest, "poisoned_after_fault");
            self.out.bump("poisoned_head_after_fault");
            info.expected_panic = true;
            self.poisoned_now = true;
        } else if bad_mode {
            // non-monotone cycle: a bounded panic or any value; never a hang (the run returns)
            match (&got, &got_pk) {
                (Ok(g), _) => {
                    self.out.digest = hash_str(self.out.digest, &format!("{g:?}"));
                    self.out.bump("bad_mode_converged");
                    self.bad_converged_seen = true;
                    info.ok = true;
                }
                (_, Some(PK::Msg(m))) if m.contains("too many cycle iterations") || (either_cycle_panic && m.contains("dependency graph cycle")) => {
                    self.out.digest = hash_str(self.out.digest, "diverged");
                    self.out.bump("nonconvergence_panic_seen");
                    self.cycle_panicked_in_rev = true;
                    info.expected_panic = true;
                }
                (_, Some(PK::Cancelled(c))) if c == "PropagatedPanic" && self.cycle_panicked_in_rev => {
                    self.out.digest = hash_str(self.out.digest, "poisoned");
                    self.out.bump("poisoned_head_observed");
                    info.expected_panic = true;
                }
                (_, pk) => self.out.viol("wrong_panic", step, format!("node {n}: non-converging cycle ended with {pk:?}")),
            }
        } else {
            match (&exp, &got) {
                (Ok(e), Ok(g)) => {
                    self.out.digest = hash_str(self.out.digest, &format!("{g:?}"));
                    if e != g
                        && self.case.property == "C22"
                        && self.case.knobs.hash_mod == 1
                        && fault::FIRED.load(SeqCst) > 0
                        && prog.nodes.iter().any(|x| x.ops.iter().any(|o| matches!(o, Op::NewTs { .. })))
                    {
                        // recorded finding #17 (C22): with colliding identity hashes a re-created tracked
                        // struct takes over the slot of a struct with another identity (new generation).
                        // If the creator's execution is interrupted by a panic after the takeover, the
                        // retry finds the slot already holding the new identity and hands out the *old*
                        // id again: memos that read the old struct's identity fields are validated.
                        self.out.viol("colliding_identity_stale_after_fault", step, format!("node {n}: expected {e:?} got {g:?}"));
                        self.stop_run = true;
                        info.ok = true;
                        self.drain(&info);
                        return;
                    }
                    if e != g && self.bad_converged_seen {
                        // C15: the property promises recovery after a non-convergence *panic*. When
                        // the non-monotone cycle converged silently, its results (history dependent,
                        // not functions of the inputs) were memoized by dependents with ordinary
                        // stamps; what those return later is unspecified
                        self.out.bump("unspecified_after_silent_nonmonotone_convergence");
                        self.stop_run = true;
                        info.ok = true;
                        self.drain(&info);
                        return;
                    }
                    if e != g {
                        // diagnosis of the recorded C13 finding: a member of a fallback cycle
                        // returned its body value (gets its own violation class, so that any
                        // other mismatch is still reported as value_mismatch)
                        // recorded finding (C10): a memo that read q_spec(E) is validated (reused) although
                        // q_spec(E) switched between "specified" and "computed" since it ran
                        let reader_reused = {
                            let log = self.db().shared.log.lock().unwrap();
                            log.iter().any(|ev| matches!(ev, Ev::Salsa { k: SK::DidValidateMemo, ing, id, .. } if self.spec_readers.contains(&(*ing, *id))))
                        };
                        if prog.node_of_kind(Kind::Spec).is_some() && self.out.revisions > 0 && (reader_reused || self.spec_reader_defect_seen) {
                            self.spec_reader_defect_seen = true;
                            self.out.viol("specify_switch_not_seen_by_validated_reader", step, format!("node {n}: expected {e:?} got {g:?}"));
                            info.ok = true;
                            self.drain(&info);
                            return;
                        }
                        let restored = self.out.stats.get("restores").copied().unwrap_or(0) > 0;
                        // direct evidence in the probe log: a struct was (re-)created with one value
                        // of a tracked field and read back with another
                        let stale_field_seen = restored && {
                            let log = self.db().shared.log.lock().unwrap();
                            let mut last: std::collections::HashMap<u64, (u32, u32, u32)> = self.ts_created.clone();
                            let mut bad = false;
                            for ev in log.iter() {
                                match ev {
                                    Ev::NewTs { id, ident, t0, t1, .. } => {
                                        last.insert(*id, (*ident, *t0, *t1));
                                    }
                                    Ev::RdTs { id, f, v } => {
                                        if let Some((ident, t0, t1)) = last.get(id) {
                                            if (*f == 0 && v != ident) || (*f == 1 && v != t0) || (*f == 2 && v != t1) {
                                                bad = true;
                                            }
                                        }
                                    }
                                    _ => {}
                                }
                            }
                            bad
                        };
                        // (also: the current step re-created a struct with other field values while a
                        // reader of struct fields was validated)
                        let changed_now = restored && {
                            let log = self.db().shared.log.lock().unwrap();
                            log.iter().any(|ev| matches!(ev, Ev::NewTs { id, ident, t0, t1, .. } if self.ts_created.get(id).is_some_and(|o| *o != (*ident, *t0, *t1))))
                        };
                        let reads_structs = prog.nodes.iter().any(|x| x.ops.iter().any(|o| matches!(o, Op::ReadTs { .. } | Op::CallOnTs { .. })));
                        if restored && (e.ts != g.ts || self.restored_ts_stale || stale_field_seen || ((changed_now || self.ts_changed_after_restore) && reads_structs)) {
                            // recorded finding (C26): serialization marks every tracked struct as
                            // updated in the current revision, so a creator re-executed in that
                            // revision skips updating the struct's fields
                            self.restored_ts_stale = true;
                            self.out.viol("restored_tracked_struct_fields_stale", step, format!("node {n}: expected {e:?} got {g:?}"));
                            // the struct's real state now differs from every model: stop the run
                            self.stop_run = true;
                            info.ok = true;
                            self.drain(&info);
                            return;
                        }
                        // recorded finding #12 (C12): a fixpoint member that was finalized with an
                        // incomplete dependency list (dependencies reached through a back edge to a
                        // cycle head propagate one hop per iteration, iteration stops when the values
                        // converge) and a missing dependency has been written since
                        if let Some(cr) = cr_opt.as_ref() {
                            if self.out.revisions > 0 && !prog.nodes.iter().any(|x| x.kind == Kind::Fb) {
                                // the memos as they were before a write (finalized legitimately in
                                // their own revision), against the fields written since
                                let mut bad = vec![];
                                for (s0, infos) in &self.memo_snapshots {
                                    let mut written = std::collections::BTreeSet::new();
                                    for s in &self.case.hist[(*s0).min(self.case.hist.len())..self.step.min(self.case.hist.len())] {
                                        if let Step::SetIn { i, f, .. } = s {
                                            written.insert((*i as usize, *f as usize));
                                        }
                                    }
                                    bad.extend(crate::refcyc::incomplete_participants(cr, infos, &written));
                                }
                                if !bad.is_empty() {
                                    self.out.viol("cycle_participant_incomplete_deps", step, format!("node {n}: expected {e:?} got {g:?}; finalized members with unrecorded, written dependencies: {bad:?}"));
                                    self.stop_run = true;
                                    info.ok = true;
                                    self.drain(&info);
                                    return;
                                }
                            }
                        }
                        // recorded finding (C04): an untracked read performed by a member of a fixpoint
                        // cycle is lost when the head's dependencies are flattened
                        let cyc_untracked = cr_opt.as_ref().is_some_and(|cr| {
                            let reach = cr.reachable(n);
                            reach.iter().any(|x| cr.untracked[*x] && prog.in_block(*x) && reach.iter().any(|h| cr.on_cycle.contains(h)))
                        });
                        // (the cycle may have existed in an earlier world of the run only: the read was
                        // lost when the head's dependencies were flattened back then)
                        let cyc_untracked = cyc_untracked || self.untracked_cycle_reach.contains(&n);
                        if cyc_untracked && self.out.revisions > 0 {
                            self.out.viol("cycle_untracked_read_lost", step, format!("node {n}: expected {e:?} got {g:?}"));
                            info.ok = true;
                            self.drain(&info);
                            return;
                        }
                        // recorded finding #14 (C14): in a cycle that contains a function without cycle
                        // recovery (entered through a fixpoint head, so no panic), a member is validated
                        // against the provisional memo of that function while the head iterates, and keeps
                        // its value of an earlier revision
                        let mixed = cr_opt.as_ref().is_some_and(|cr| cr.on_cycle.iter().any(|x| !prog.nodes[*x].kind.is_cycle_kind()) || self.mixed_cycle_seen);
                        if mixed {
                            self.mixed_cycle_seen = true;
                        }
                        let hist_mut = self.case.hist[..self.step.min(self.case.hist.len())].iter().any(|s| s.is_mut());
                        // (evidence: the stale node is itself a fixpoint function, and its memo was
                        // validated in this revision in a step in which a cycle iterated — also counting
                        // the events of the current step, which are not drained yet)
                        let my_id = {
                            use salsa::plumbing::AsId;
                            self.db().shared.key(n).as_id().as_bits()
                        };
                        let validated_now = {
                            let log = self.db().shared.log.lock().unwrap();
                            log.iter().any(|ev| matches!(ev, Ev::Salsa { k: SK::WillIterateCycle | SK::DidFinalizeCycle, .. })) && log.iter().any(|ev| matches!(ev, Ev::Salsa { k: SK::DidValidateMemo, id, .. } if *id == my_id))
                        };
                        let validated_in_iteration = validated_now || self.validated_during_iteration.contains(&my_id);
                        if mixed && hist_mut && validated_in_iteration && self.past_vals.len() >= 2 && self.past_vals[..self.past_vals.len() - 1].iter().any(|v| v[n] == g.v) {
                            self.out.viol("mixed_cycle_member_validated_stale", step, format!("node {n}: expected {e:?} got {g:?} (= its value in an earlier revision; the cycle contains a function without recovery)"));
                            self.stop_run = true;
                            info.ok = true;
                            self.drain(&info);
                            return;
                        }
                        let fb = prog.nodes.iter().any(|x| x.kind == Kind::Fb);
                        // the recorded finding needs a mutable step (new revision or cancellation)
                        // before the request; histories without one are judged exactly. Wrong body
                        // values stay memoized, so later requests of the same run can show them too.
                        let mechanism = self.case.hist[..self.step.min(self.case.hist.len())].iter().any(|s| s.is_mut());
                        let known_shape = fb && mechanism && cr_opt.as_ref().is_some_and(|cr| cr.fb_body_value_model_matches(n, g.v));
                        // recorded finding #13 (C13): a dependent of a cycle_result member keeps the value
                        // it computed from the member's fallback after a write removed the cycle (the
                        // member's re-execution is backdated): the stale value is the node's reference
                        // value in an earlier world of this run
                        let stale_shape = fb && mechanism && self.past_vals.len() >= 2 && self.past_vals[..self.past_vals.len() - 1].iter().any(|v| v[n] == g.v);
                        if known_shape {
                            self.fb_defect_seen = true;
                            self.out.viol("fb_member_returned_body_value", step, format!("node {n}: expected {e:?} got {g:?} (= body value of a fallback-cycle member re-executed in a later revision)"));
                        } else if stale_shape {
                            self.out.viol("fb_dependent_validated_stale", step, format!("node {n}: expected {e:?} got {g:?} (= its value in an earlier revision; fallback cycle reshaped by a write)"));
                            self.stop_run = true;
                        } else {
                            self.out.viol("value_mismatch", step, format!("node {n} arg {arg}: expected {e:?} got {g:?}"));
                        }
                    }
                    info.ok = true;
                }
                (Ok(e), Err(_)) => {
                    let pk = got_pk.clone().unwrap();
                    self.out.digest = hash_str(self.out.digest, &format!("{pk:?}"));
                    match &pk {
                        PK::Msg(m) if either_cycle_panic && m.contains("dependency graph cycle") => {
                            self.out.bump("cycle_panic_seen");
                            self.cycle_panicked_in_rev = true;
                            info.expected_panic = true;
                        }
                        PK::Cancelled(c) if c == "PropagatedPanic" && either_cycle_panic && self.cycle_panicked_in_rev => {
                            self.out.bump("poisoned_head_observed");
                            info.expected_panic = true;
                        }
                        PK::Msg(m) if self.last_fault_cb == Some(Cb::Event) && (m.contains("cannot delete read-locked id") || m.contains("cannot delete write-locked id")) => {
                            // recorded finding (C22): an event-callback panic while the stale outputs of a
                            // re-executed query were being discarded left the old memo in place with
                            // already-deleted outputs
                            self.out.viol("stale_output_discard_interrupted", step, format!("node {n}: after a panic in the event callback during stale-output deletion the retry fails: {m}"));
                            self.stop_run = true;
                        }
                        PK::Msg(m) if m.contains("cannot delete read-locked id") && prog.node_of_kind(Kind::Spec).is_some() && self.out.revisions > 0 && (self.spec_switch_seen || self.spec_key_switched_in_step()) => {
                            // recorded finding (C10), other symptom: the switch of q_spec(E) from "specified" to
                            // "computed" is reported as unchanged, so the deep verification of the reader goes
                            // on to later edges (validating memos of structs it is about to drop) before a
                            // changed input makes it re-execute; dropping such a struct then fails
                            self.spec_reader_defect_seen = true;
                            self.out.viol("specify_switch_not_seen_by_validated_reader", step, format!("node {n}: {m}"));
                            self.stop_run = true;
                        }
                        PK::Msg(m) if m.contains("cannot delete read-locked id") && self.out.stats.get("restores").copied().unwrap_or(0) > 0 => {
                            // same root cause as restored_tracked_struct_fields_stale: the struct counts as
                            // updated in the snapshot revision, so dropping it there fails
                            self.out.viol("restored_tracked_struct_delete_panics", step, format!("node {n}: {m}"));
                            self.stop_run = true;
                        }
                        PK::Msg(m) if m.contains("cannot be accessed before calling `init`") && self.out.stats.get("restores").copied().unwrap_or(0) > 0 => {
                            // recorded finding (C26): verifying a restored memo reaches a persisted function
                            // that has not been called yet on the restored database
                            self.out.viol("restored_dependency_uninitialized_function", step, format!("node {n}: {m}"));
                        }
                        other => self.out.viol("unexpected_panic", step, format!("node {n} arg {arg}: expected {e:?} got panic {other:?}")),
                    }
                }
                (Err(a), Ok(g)) => {
                    // recorded finding (C10): the reader of a switched q_spec key was validated instead of
                    // re-executed, so the panic its body would raise now does not happen
                    let reader_reused = {
                        let log = self.db().shared.log.lock().unwrap();
                        log.iter().any(|ev| matches!(ev, Ev::Salsa { k: SK::DidValidateMemo, ing, id, .. } if self.spec_readers.contains(&(*ing, *id))))
                    };
                    if prog.node_of_kind(Kind::Spec).is_some() && self.out.revisions > 0 && (reader_reused || self.spec_reader_defect_seen) {
                        self.spec_reader_defect_seen = true;
                        self.out.viol("specify_switch_not_seen_by_validated_reader", step, format!("node {n}: expected abort {a:?} got {g:?} (reader validated)"));
                        self.stop_run = true;
                    } else {
                        self.out.viol("missing_panic", step, format!("node {n}: expected abort {a:?} got {g:?}"))
                    }
                }
                (Err(a), Err(_)) => {
                    let pk = got_pk.clone().unwrap();
                    self.out.digest = hash_str(self.out.digest, &format!("{pk:?}"));
                    let ok = match (a, &pk) {
                        (Abort::SpecifyForeign, PK::Msg(m)) => m.contains("can only use `specify`"),
                        (Abort::SpecifyTwice, PK::Msg(m)) => m.contains("cannot call `specify` twice"),
                        (Abort::Cycle, PK::Msg(m)) => m.contains("dependency graph cycle"),
                        _ => false,
                    };
                    if ok {
                        self.out.bump("expected_panic_seen");
                        if *a == Abort::Cycle {
                            self.out.bump("cycle_panic_seen");
                            self.cycle_panicked_in_rev = true;
                        }
                        info.expected_panic = true;
                    } else {
                        self.out.viol("wrong_panic", step, format!("node {n}: expected abort {a:?} got {pk:?}"));
                    }
                }
            }
        }
        // fresh-database cross-check (second, literal reading of "from scratch")
        let fe = self.case.knobs.fresh_every;
        if fe != 0 && self.queries % fe as u64 == 0 && exp.is_ok() && got.is_ok() && self.case.panic_at.is_none() && !bad_mode && !either_cycle_panic {
            let evs = self.db().shared.take_log();
            self.digest_events(&evs);
            let saved = evs;
            let fresh = SimDatabase::new(prog, &self.world);
            fresh.shared.log_on.store(0, SeqCst);
            let fr = catch_unwind(AssertUnwindSafe(|| observe(&fresh, n, arg, deep)));
            drop(fresh);
            self.out.bump("fresh_db_crosschecks");
            if let (Ok(f), Ok(e)) = (&fr, &exp) {
                if f != e {
                    self.out.viol("reference_vs_fresh_db", step, format!("node {n}: reference {e:?} fresh salsa {f:?}"));
                }
            }
            // put the drained events back in front for the oracles
            let mut l = self.db().shared.log.lock().unwrap();
            let mut s = saved;
            s.extend(l.drain(..));
            *l = s;
        }
        self.drain(&info);
    }

    fn mutating<R>(&mut self, f: impl FnOnce(&mut SimDatabase) -> R) -> Result<R, PK> {
        let db = self.db.as_mut().unwrap();
        let r = catch_unwind(AssertUnwindSafe(|| f(db)));
        let r = r.map_err(|p| panic_kind(&p));
        if let Err(PK::Injected(_, cb)) = &r {
            self.last_fault_cb = Some(*cb);
            self.injected_now = true;
            self.out.bump("fault_panic_reached_caller");
            self.out.bump("fault_in_mutating_step");
        }
        r
    }

    fn panic_viol(&mut self, si: usize, what: String, pk: &PK) {
        if !matches!(pk, PK::Injected(..)) {
            self.out.viol("unexpected_panic", si, format!("{what}: {pk:?}"));
        }
    }

    fn exec_step(&mut self, si: usize, st: &Step) {
            match st {
            Step::SetIn { i, f, v, d } => {
                let (i, f) = (*i as usize, *f as usize);
                {
                    let prog = &self.case.prog;
                    if prog.is_cyclic() && !prog.nodes.iter().any(|x| x.kind == Kind::Fb) {
                        let infos: Vec<MemoInfo> = (prog.blk_lo as usize..prog.blk_hi as usize).filter_map(|x| memo_info(self.db(), x)).collect();
                        self.memo_snapshots.push((si, infos));
                    }
                }
                let frozen = self.never.contains(&(i, f));
                let r = self.mutating(|db| db.set_in(i, f, *v, *d));
                self.new_revision_note();
                match (frozen, r) {
                    (false, Ok(())) => {
                        self.world.ins[i][f] = *v;
                        if *d == Some(Dur::Never) {
                            self.never.insert((i, f));
                            self.out.bump("field_frozen");
                        }
                    }
                    (true, Err(PK::Msg(m))) if m.contains("never-changing inputs cannot be mutated") => self.out.bump("never_write_rejected"),
                    (true, Ok(())) => self.out.viol("never_write_accepted", si, format!("write to frozen field ({i},{f}) did not panic")),
                    (_, Err(pk)) => self.panic_viol(si, format!("set_in({i},{f}) panicked"), &pk),
                }
                self.drain(&crate::oracles::StepInfo::write(Some((i, f)), *d));
            }
            Step::Synthetic { d } => {
                let d = *d;
                let r = self.mutating(|db| salsa::Database::synthetic_write(db, dur(d)));
                self.new_revision_note();
                match (d, r) {
                    (Dur::Never, Err(PK::Msg(_))) => self.out.bump("never_write_rejected"),
                    (Dur::Never, Ok(())) => self.out.viol("never_write_accepted", si, "synthetic_write(NEVER_CHANGE) did not panic".into()),
                    (_, Ok(())) => {}
                    (_, Err(pk)) => self.panic_viol(si, "synthetic_write panicked".into(), &pk),
                }
                self.drain(&crate::oracles::StepInfo::write(None, Some(d)));
            }
            Step::Burst { n, d } => {
                for _ in 0..*n {
                    let d = *d;
                    let r = self.mutating(|db| salsa::Database::synthetic_write(db, dur(d)));
                    self.new_revision_note();
                    if let (true, Err(pk)) = (d != Dur::Never, r) {
                        self.panic_viol(si, "synthetic_write panicked".into(), &pk);
                    }
                    self.drain(&crate::oracles::StepInfo::write(None, Some(d)));
                }
            }
            Step::SetExt { c, v, d } => {
                self.db().shared.cells[*c as usize].store(*v, SeqCst);
                self.world.cells[*c as usize] = *v;
                let d = *d;
                let r = self.mutating(|db| salsa::Database::synthetic_write(db, dur(d)));
                self.new_revision_note();
                if let (true, Err(pk)) = (d != Dur::Never, r) {
                    self.panic_viol(si, "synthetic_write panicked".into(), &pk);
                }
                let mut info = crate::oracles::StepInfo::write(None, Some(d));
                info.ext_cell = Some(*c as usize);
                self.drain(&info);
            }
            Step::Query { n, arg } => self.do_query(*n as usize, *arg, false, false),
            Step::QueryMk { n, deep } => self.do_query(*n as usize, 0, *deep, false),
            Step::CloneQueryDrop { n, arg } => self.do_query(*n as usize, *arg, true, true),
            Step::TriggerCancel => {
                let r = self.mutating(|db| salsa::Database::trigger_cancellation(db));
                if let Err(pk) = r {
                    self.panic_viol(si, "trigger_cancellation panicked".into(), &pk);
                }
                self.drain(&crate::oracles::StepInfo::other("trigger_cancel"));
            }
            Step::TriggerLru => {
                let r = self.mutating(|db| salsa::Database::trigger_lru_eviction(db));
                if let Err(pk) = r {
                    self.panic_viol(si, "trigger_lru_eviction panicked".into(), &pk);
                }
                self.drain(&crate::oracles::StepInfo::other("trigger_lru"));
            }
            Step::SetLru { cap } => {
                let cap = *cap as usize;
                let r = self.mutating(|db| set_lru_cap(db, cap));
                if let Err(pk) = r {
                    self.panic_viol(si, "set_lru_capacity panicked".into(), &pk);
                }
                let mut info = crate::oracles::StepInfo::other("set_lru");
                info.lru_cap = Some(cap);
                self.drain(&info);
            }
            Step::InternOutside { t, v } => {
                let (t, v) = (*t as usize, *v);
                let db = self.db();
                let r = catch_unwind(AssertUnwindSafe(|| {
                    let h = intern_any(db, t, v);
                    db.sh().push(Ev::Intern { t: t % 4, v, id: h.id().as_bits(), in_query: false });
                    h.v(db)
                }));
                match r {
                    Ok(got) if got == v => {}
                    Ok(got) => self.out.viol("value_mismatch", si, format!("interned {v} outside a query, read back {got}")),
                    Err(p) => match panic_kind(&p) {
                        PK::Injected(..) => {
                            self.injected_now = true;
                            self.out.bump("fault_panic_reached_caller")
                        }
                        pk => self.out.viol("unexpected_panic", si, format!("intern outside panicked: {pk:?}")),
                    },
                }
                self.drain(&crate::oracles::StepInfo::other("intern_outside"));
            }
            Step::Accumulated { n, arg } => {
                // bring the root up to date with a plain request first (accumulated() does the
                // same fetch internally), then read the accumulated values
                self.do_query(*n as usize, *arg, false, false);
                crate::oracles::accumulated_step(self, *n as usize, *arg)
            }
            Step::LocalCancelQuery { .. } | Step::SnapshotRestore | Step::Hold { .. } => {
                crate::oracles::special_step(self, st.clone());
            }
        }
    }

    /// C23: every reference returned by a tracked function keeps its value until the database is
    /// next borrowed mutably.
    /// did the current step discard the assigned (specified) memo of a q_spec key?
    fn spec_key_switched_in_step(&self) -> bool {
        let db = self.db();
        let log = db.shared.log.lock().unwrap();
        log.iter().any(|ev| match ev {
            Ev::Salsa { k: SK::WillDiscardStaleOutput, ing, .. } => salsa::Database::ingredient_debug_name(db, salsa::verif::ingredient_index_from_u32(*ing)) == "q_spec",
            _ => false,
        })
    }

    fn revalidate_held(&mut self, si: usize) {
        for (addr, node, copy) in &self.held {
            // SAFETY (of the check itself): the reference was obtained from `&db` and no `&mut db`
            // happened since; if salsa freed or changed the value this is exactly the bug we look for
            let now: &Vec<u32> = unsafe { &*(*addr as *const Vec<u32>) };
            self.out.add("held_reference_revalidations", 1);
            let same = now.len() == copy.len() && now.iter().zip(copy.iter()).all(|(a, b)| a == b);
            if !same {
                self.out.viol("held_reference_changed", si, format!("reference returned by q_ref(node {node}) changed while the database was only borrowed immutably: {copy:?} -> len {}", now.len()));
            }
        }
    }

    pub fn hold_ref(&mut self, n: usize) {
        let db = self.db.as_ref().unwrap();
        if db.shared.prog.nodes[n].kind != Kind::Ref {
            return;
        }
        let k = db.shared.key(n);
        let r = catch_unwind(AssertUnwindSafe(|| {
            let v: &Vec<u32> = q_ref(db, k);
            (v as *const Vec<u32> as usize, v.clone())
        }));
        if let Ok((addr, copy)) = r {
            self.held.push((addr, n, copy));
            self.out.bump("references_held");
        }
        let info = crate::oracles::StepInfo::other("hold");
        self.drain(&info);
    }

    pub fn run(mut self) -> RunOut {
        if let Some(k) = self.case.panic_at {
            fault::arm(k);
        }
        let hist = &self.case.hist;
        for (si, st) in hist.iter().enumerate() {
            self.step = si;
            self.out.steps += 1;
            self.revalidate_held(si);
            if st.is_mut() {
                self.oracles.before_mut(self.db.as_ref().unwrap(), si, &mut self.out);
                // the database is about to be borrowed mutably: held references end here
                self.held.clear();
            }
            for _attempt in 0..4 {
                self.injected_now = false;
                self.poisoned_now = false;
                self.exec_step(si, st);
                if self.stop_run {
                    break;
                }
                if self.injected_now {
                    // the injected panic reached the caller of this step: the plan is disarmed,
                    // retry the same step
                    self.out.bump("fault_step_retried");
                    self.injected_in_rev = true;
                    fault::disarm();
                    continue;
                }
                if self.poisoned_now {
                    // cycle members interrupted by the fault stay poisoned for the rest of the
                    // revision: start a new one and retry
                    let r = self.mutating(|db| salsa::Database::synthetic_write(db, salsa::Durability::LOW));
                    self.new_revision_note();
                    if let Err(pk) = r {
                        self.panic_viol(si, "synthetic_write after a fault panicked".into(), &pk);
                    }
                    self.drain(&crate::oracles::StepInfo::write(None, Some(Dur::Low)));
                    continue;
                }
                break;
            }
            if self.stop_run {
                break;
            }
            if self.out.viol.len() > 8 {
                break;
            }
        }
        self.step = hist.len();
        let db = self.db.take();
        self.oracles.at_end(db, &self.world, &mut self.out);
        self.out.add("faults_fired", fault::FIRED.load(SeqCst));
        self.out.add("callbacks", fault::COUNT.load(SeqCst));
        self.out.digest = hash64(self.out.digest, self.out.viol.len() as u64);
        self.out
    }
}

pub fn run_case(case: &Case) -> RunOut {
    E1::new(case).run()
}
