//! Run classes: how each property's cases are generated from a seed.

use crate::case::*;
use crate::genr::*;
use crate::prog::*;
use crate::rng::Rng;

#[derive(Clone, Copy, Debug, PartialEq, Eq)]
pub enum Tier {
    Quick,
    Thorough,
}

pub struct PropInfo {
    pub id: &'static str,
    pub engine: &'static str,
    pub rule: &'static str,
}

pub fn info(prop: &str) -> PropInfo {
    match prop {
        "C01" => PropInfo { id: "C01", engine: "e1", rule: "seeded acyclic program + write/query history; distinct = distinct (program, history) hash; non-trivial = at least one request was served after a write that followed an earlier request (memo reuse/verification exercised) and the run executed >= 1 body" },
        "C02" => PropInfo { id: "C02", engine: "e1", rule: "seeded acyclic program + history in which every write draws LOW/MEDIUM/HIGH/NEVER_CHANGE (or keeps) and synthetic writes of every durability occur; distinct = (program, history) hash; non-trivial = a request after a write after a request, at least two different durabilities written, >= 1 memo validated" },
        "C03" => PropInfo { id: "C03", engine: "e1", rule: "seeded acyclic program + history without faults; every body execution is checked against the justification model; distinct = (program, history) hash; non-trivial = request after write after request and at least one re-execution was checked (justified) or a memo was validated" },
        "C04" => PropInfo { id: "C04", engine: "e1", rule: "seeded programs with untracked reads of external cells + histories changing cells followed by a synthetic write of any durability; non-trivial = an untracked node was re-executed in a later revision" },
        "C06" => PropInfo { id: "C06", engine: "e1", rule: "seeded programs whose makers create 0..k tracked structs conditionally with colliding idents; non-trivial = a maker re-executed and at least one struct identity was compared (kept) or a discard was expected" },
        _ => PropInfo { id: "C??", engine: "e1", rule: "" },
    }
}

fn scale(t: Tier, c: &mut GenCfg, h: &mut HistCfg) {
    if t == Tier::Thorough {
        c.nodes.1 += 6;
        c.ops.1 += 3;
        h.steps.1 += 40;
    }
}

pub fn make_case(prop: &str, seed: u64, tier: Tier) -> Case {
    let mut r = Rng::new(seed ^ crate::rng::hash_str(0, prop));
    let mut g = GenCfg::base();
    let mut h = HistCfg::base();
    let mut knobs = Knobs::default();
    let mut class = "default".to_string();
    match prop {
        "C01" => {
            g.kinds = vec![(Kind::Plain, 10), (Kind::NoEq, 3), (Kind::Multi, 3), (Kind::Ref, 2), (Kind::Mk, 4), (Kind::Lru, 2)];
            g.on_ts = true;
            g.on_it = true;
            g.zero = true;
            g.ts_ops = r.pct(70);
            g.intern_ops = r.pct(60);
            g.untracked_ops = r.pct(40);
            g.cells = (0, 2);
            g.nodes = (3, 12);
            h.w_burst = 3;
            h.w_setext = 6;
            h.w_intern_out = if g.intern_ops { 4 } else { 0 };
            knobs.hash_mod = if r.pct(50) { 1 } else { 0 };
            knobs.fresh_every = if r.pct(30) { 4 } else { 0 };
            if r.pct(35) {
                class = "disturbed".into();
                h.w_setlru = 3;
                h.w_triglru = 3;
                h.w_trigcancel = 3;
                h.w_clone = 6;
            } else {
                class = "fault_free".into();
            }
        }
        "C02" => {
            // durability churn: many input reads behind input-controlled branches, every write draws a durability
            g.kinds = vec![(Kind::Plain, 10), (Kind::NoEq, 2), (Kind::Multi, 2), (Kind::Mk, 2)];
            g.ts_ops = r.pct(30);
            g.on_ts = true;
            g.nodes = (3, 9);
            g.inputs = (2, 4);
            g.m_choices = vec![2, 2, 3];
            h.steps = (8, 36);
            h.w_set = 45;
            h.w_synth = 8;
            h.w_burst = 2;
            h.durs = vec![None, Some(Dur::Low), Some(Dur::Medium), Some(Dur::High), Some(Dur::Low), Some(Dur::Medium), Some(Dur::High)];
            if r.pct(40) {
                h.durs.push(Some(Dur::Never));
                h.synth_durs.push(Dur::Never);
                class = "with_never_change".into();
            } else {
                class = "churn".into();
            }
            knobs.fresh_every = if r.pct(20) { 5 } else { 0 };
        }
        "C03" => {
            g.kinds = vec![(Kind::Plain, 10), (Kind::NoEq, 2), (Kind::Multi, 2), (Kind::Ref, 2), (Kind::Mk, 3), (Kind::Lru, 1)];
            g.on_ts = true;
            g.on_it = true;
            g.zero = true;
            g.ts_ops = r.pct(50);
            g.intern_ops = r.pct(30);
            g.untracked_ops = r.pct(20);
            g.cells = (0, 1);
            g.m_choices = vec![2, 2, 3, 4];
            h.w_setext = 3;
            h.w_burst = 2;
            class = if g.ts_ops || g.intern_ops { "structs".into() } else { "core".into() };
        }
        "C04" => {
            g.kinds = vec![(Kind::Plain, 10), (Kind::NoEq, 1), (Kind::Multi, 2), (Kind::Lru, 2), (Kind::Mk, 1)];
            g.untracked_ops = true;
            g.cells = (1, 3);
            g.m_choices = vec![2, 2, 3];
            g.ts_ops = r.pct(20);
            h.w_setext = 25;
            h.w_set = 12;
            h.w_synth = 8;
            h.w_triglru = 2;
            h.w_setlru = 2;
            class = "acyclic".into();
        }
        "C06" => {
            g.kinds = vec![(Kind::Plain, 6), (Kind::Mk, 8), (Kind::Multi, 1)];
            g.ts_ops = true;
            g.on_ts = true;
            g.mk_bias = 90;
            g.m_choices = vec![2, 3, 4];
            g.ops = (3, 10);
            h.w_query = 55;
            h.w_set = 35;
            class = "structs".into();
        }
        _ => panic!("unknown property {prop}"),
    }
    scale(tier, &mut g, &mut h);
    let prog = gen_acyclic(&mut r, &g);
    let world = gen_world(&mut r, prog.n_inputs, prog.n_cells, prog.m);
    let hist = gen_history(&mut r, &prog, &h);
    Case { property: prop.to_string(), engine: "e1".into(), class, seed, knobs, prog, world: (&world).into(), hist, panic_at: None, fault_mask: u32::MAX, conc: None, expect: vec![] }
}

/// Is this run non-trivial for its property (measured, per run)?
pub fn nontrivial(case: &Case, out: &RunOut) -> bool {
    let st = |k: &str| out.stats.get(k).copied().unwrap_or(0);
    let base = {
        // a request after a write after a request
        let mut phase = 0;
        for s in &case.hist {
            let is_q = matches!(s, Step::Query { .. } | Step::QueryMk { .. } | Step::CloneQueryDrop { .. } | Step::Accumulated { .. });
            match phase {
                0 if is_q => phase = 1,
                1 if s.is_mut() => phase = 2,
                2 if is_q => phase = 3,
                _ => {}
            }
        }
        phase == 3 && st("ev_will_execute") > 0
    };
    match case.property.as_str() {
        "C02" => {
            let mut ds = std::collections::BTreeSet::new();
            for s in &case.hist {
                if let Step::SetIn { d: Some(d), .. } = s {
                    ds.insert(*d);
                }
            }
            base && ds.len() >= 2 && st("ev_did_validate_memo") > 0
        }
        "C03" => base && (st("reexec_justified") > 0 || st("ev_did_validate_memo") > 0),
        "C04" => base && st("untracked_reexecuted_in_revision") > 0,
        "C06" => base && (st("ts_identity_kept") > 0 || st("ts_discard_seen") > 0),
        _ => {
            // a request after a write after a request
            let mut phase = 0;
            for s in &case.hist {
                let is_q = matches!(s, Step::Query { .. } | Step::QueryMk { .. } | Step::CloneQueryDrop { .. } | Step::Accumulated { .. });
                match phase {
                    0 if is_q => phase = 1,
                    1 if s.is_mut() => phase = 2,
                    2 if is_q => phase = 3,
                    _ => {}
                }
            }
            phase == 3 && st("ev_will_execute") > 0
        }
    }
}
