//! Run classes: how each property's cases are generated from a seed.

use crate::case::*;
use crate::genr::*;
use crate::prog::*;
use crate::rng::Rng;

#[derive(Clone, Copy, Debug, PartialEq, Eq)]
pub enum Tier {
    Quick,
    Thorough,
}

pub struct PropInfo {
    pub id: &'static str,
    pub engine: &'static str,
    pub rule: &'static str,
}

pub fn info(prop: &str) -> PropInfo {
    match prop {
        "C01" => PropInfo { id: "C01", engine: "e1", rule: "seeded acyclic program + write/query history; distinct = distinct (program, history) hash; non-trivial = at least one request was served after a write that followed an earlier request (memo reuse/verification exercised) and the run executed >= 1 body" },
        _ => PropInfo { id: "C??", engine: "e1", rule: "" },
    }
}

fn scale(t: Tier, c: &mut GenCfg, h: &mut HistCfg) {
    if t == Tier::Thorough {
        c.nodes.1 += 6;
        c.ops.1 += 3;
        h.steps.1 += 40;
    }
}

pub fn make_case(prop: &str, seed: u64, tier: Tier) -> Case {
    let mut r = Rng::new(seed ^ crate::rng::hash_str(0, prop));
    let mut g = GenCfg::base();
    let mut h = HistCfg::base();
    let mut knobs = Knobs::default();
    let mut class = "default".to_string();
    match prop {
        "C01" => {
            g.kinds = vec![(Kind::Plain, 10), (Kind::NoEq, 3), (Kind::Multi, 3), (Kind::Ref, 2), (Kind::Mk, 4), (Kind::Lru, 2)];
            g.on_ts = true;
            g.on_it = true;
            g.zero = true;
            g.ts_ops = r.pct(70);
            g.intern_ops = r.pct(60);
            g.untracked_ops = r.pct(40);
            g.cells = (0, 2);
            g.nodes = (3, 12);
            h.w_burst = 3;
            h.w_setext = 6;
            h.w_intern_out = if g.intern_ops { 4 } else { 0 };
            knobs.hash_mod = if r.pct(50) { 1 } else { 0 };
            knobs.fresh_every = if r.pct(30) { 4 } else { 0 };
            if r.pct(35) {
                class = "disturbed".into();
                h.w_setlru = 3;
                h.w_triglru = 3;
                h.w_trigcancel = 3;
                h.w_clone = 6;
            } else {
                class = "fault_free".into();
            }
        }
        _ => panic!("unknown property {prop}"),
    }
    scale(tier, &mut g, &mut h);
    let prog = gen_acyclic(&mut r, &g);
    let world = gen_world(&mut r, prog.n_inputs, prog.n_cells, prog.m);
    let hist = gen_history(&mut r, &prog, &h);
    Case { property: prop.to_string(), engine: "e1".into(), class, seed, knobs, prog, world: (&world).into(), hist, panic_at: None, fault_mask: u32::MAX, conc: None, expect: vec![] }
}

/// Is this run non-trivial for its property (measured, per run)?
pub fn nontrivial(case: &Case, out: &RunOut) -> bool {
    let st = |k: &str| out.stats.get(k).copied().unwrap_or(0);
    match case.property.as_str() {
        _ => {
            // a request after a write after a request
            let mut phase = 0;
            for s in &case.hist {
                let is_q = matches!(s, Step::Query { .. } | Step::QueryMk { .. } | Step::CloneQueryDrop { .. } | Step::Accumulated { .. });
                match phase {
                    0 if is_q => phase = 1,
                    1 if s.is_mut() => phase = 2,
                    2 if is_q => phase = 3,
                    _ => {}
                }
            }
            phase == 3 && st("ev_will_execute") > 0
        }
    }
}
