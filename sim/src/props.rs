//! Run classes: how each property's cases are generated from a seed.

use crate::case::*;
use crate::genr::*;
use crate::prog::*;
use crate::rng::Rng;

#[derive(Clone, Copy, Debug, PartialEq, Eq)]
pub enum Tier {
    Quick,
    Thorough,
}

pub struct PropInfo {
    pub id: &'static str,
    pub engine: &'static str,
    pub rule: &'static str,
}

pub fn info(prop: &str) -> PropInfo {
    match prop {
        "C01" => PropInfo { id: "C01", engine: "e1", rule: "seeded acyclic program + write/query history; distinct = distinct (program, history) hash; non-trivial = at least one request was served after a write that followed an earlier request (memo reuse/verification exercised) and the run executed >= 1 body" },
        "C02" => PropInfo { id: "C02", engine: "e1", rule: "seeded acyclic program + history in which every write draws LOW/MEDIUM/HIGH/NEVER_CHANGE (or keeps) and synthetic writes of every durability occur; distinct = (program, history) hash; non-trivial = a request after a write after a request, at least two different durabilities written, >= 1 memo validated" },
        "C03" => PropInfo { id: "C03", engine: "e1", rule: "seeded acyclic program + history without faults; every body execution is checked against the justification model; distinct = (program, history) hash; non-trivial = request after write after request and at least one re-execution was checked (justified) or a memo was validated" },
        "C04" => PropInfo { id: "C04", engine: "e1", rule: "seeded programs with untracked reads of external cells + histories changing cells followed by a synthetic write of any durability; non-trivial = an untracked node was re-executed in a later revision" },
        "C06" => PropInfo { id: "C06", engine: "e1", rule: "seeded programs whose makers create 0..k tracked structs conditionally with colliding idents; non-trivial = a maker re-executed and at least one struct identity was compared (kept) or a discard was expected" },
        "C05" => PropInfo { id: "C05", engine: "e1", rule: "seeded programs whose shared sub-nodes are q_lru (declared capacity 4), histories interleaving requests, writes, set_lru_capacity(0..4), trigger_lru_eviction; non-trivial = the list model evicted at least one value and it was later recomputed or the bound was checked at full capacity" },
        "C08" => PropInfo { id: "C08", engine: "e3", rule: "[e3] threads intern overlapping small values concurrently (directly and inside queries) under seeded schedules; distinct = (program, rounds, recorded schedule); non-trivial = >= 2 context switches, >= 1 body executed, >= 1 interning compared. [e1] single-handle histories: canonical handles and kept identities per the interned model" },
        "C09" => PropInfo { id: "C09", engine: "e1", rule: "seeded programs interning small values into It1/It2/It3/ItInf (single shard) under LOW-only, mixed and MEDIUM/HIGH input durabilities, with bursts of revisions; every DidReuseInternedValue is checked against the retention model; non-trivial = at least one reuse event was checked, or (durable / immortal classes) an identity was observed to be kept across revisions" },
        "C12" => PropInfo { id: "C12", engine: "e1", rule: "seeded cyclic programs over 4-bit sets whose block members are q_fix/q_fixj with monotone bodies (nested, input-conditional cycles), every node requested in random order across histories that reshape the cycles; non-trivial = at least one fixpoint iteration happened and a request followed a write that followed a request" },
        "C13" => PropInfo { id: "C13", engine: "e1", rule: "same generator with cycle_result members; expected = fallback for nodes on a cycle of the input-determined call graph, body value otherwise; non-trivial = a cycle was finalized and request-after-write-after-request" },
        "C14" => PropInfo { id: "C14", engine: "e1", rule: "cyclic programs whose block mixes functions without recovery and q_fix; outcome per request: cycle panic (required on a fresh database when the from-scratch DFS re-enters a non-recovering function) or the least-fixpoint value; non-trivial = a cycle panic was observed and later requests succeeded" },
        "C15" => PropInfo { id: "C15", engine: "e1", rule: "fixpoint programs with an input-guarded non-monotone step; guard on => bounded panic or any value, never more than 200 iterations; guard off later => least fixpoint; non-trivial = a non-convergence panic was observed" },
        "C26" => PropInfo { id: "C26", engine: "e1p", rule: "seeded acyclic programs over persisted inputs / tracked structs / interned values / functions (q_noeq and q_lru are deliberately not persisted), histories with SnapshotRestore steps (serde_json round trip into a fresh database) at arbitrary points; non-trivial = at least one restore happened and a request was compared afterwards" },
        "C23" => PropInfo { id: "C23", engine: "e1", rule: "histories of the single-handle classes (C01 C05 C06 C07 C09 C10 C11 C12 C13 C15; a third with one injected panic) executed under a quarantining, poisoning global allocator, with references returned by q_ref held across later requests and revalidated before the next mutable borrow; every 50th case is additionally executed twice more to measure live-byte growth after everything is dropped; non-trivial = blocks were quarantined during the run and at least one request followed a write" },
        "C22" => PropInfo { id: "C22", engine: "e1", rule: "fault enumeration: each generated base history (acyclic with structs/interning/accumulators, or cyclic with cycle_fn) is first run fault-free to count the user callbacks K by class (body op, V::eq, V::hash, cycle_fn, cycle_initial/cycle_result, event callback); then re-run with a panic injected at callback k for every k of the rare classes and a sample of body ops (<= 40 per base history). evaluation = one (history, k) pair; non-trivial = the fault fired, the panic reached the caller, the step was retried and at least one later request was compared" },
        "C07" => PropInfo { id: "C07", engine: "e1", rule: "seeded programs churning tracked structs and interned values (revisions=1..3, single shard) with functions keyed by them; non-trivial = a slot was observed with a bumped generation or an interned slot was reused" },
        "C10" => PropInfo { id: "C10", engine: "e1", rule: "seeded makers that conditionally specify q_spec for structs they create, consumers via returned handles, both request orders; non-trivial = request after write after request in a program that contains a Specify op and a Spec node" },
        "C11" => PropInfo { id: "C11", engine: "e1", rule: "seeded acyclic programs with conditional Acc ops at several depths; accumulated() requested at random points; non-trivial = at least one non-empty accumulated vector was compared after a write" },
        "C16" | "C17" | "C18" | "C19" | "C20" | "C21" | "C24" => PropInfo { id: "conc", engine: "e3", rule: "seeded concurrent case = generated program + rounds (reader threads with request lists, optional writer op / token cancels / fault plan) + scheduler parameters (strategy random|pct|rr, stay bias, PCT depth, spurious wake-up rate); one seed = one exactly repeatable interleaving (recorded choice list); distinct = (program, rounds, recorded schedule) hash; non-trivial = >= 2 context switches between managed threads, >= 1 body executed and >= 1 result compared with the reference" },
        _ => PropInfo { id: "C??", engine: "e1", rule: "" },
    }
}

fn scale(t: Tier, c: &mut GenCfg, h: &mut HistCfg) {
    if t == Tier::Thorough {
        c.nodes.1 += 6;
        c.ops.1 += 3;
        h.steps.1 += 40;
    }
}

/// Concurrent cases (engine e3): program + rounds of reader threads, writer, cancels, faults.
pub fn make_conc_case(real_prop: &str, seed: u64, tier: Tier) -> Case {
    use crate::conc::*;
    let mut r = Rng::new(seed ^ crate::rng::hash_str(7, real_prop));
    // C19 (waiting protocol) rides on every scenario family: readers, cross-thread cycles,
    // writer cancellation, token cancellation, panics with waiters
    let prop: &str = if real_prop == "C19" {
        *r.pick(&["C16", "C18", "C18", "C20", "C21", "C22", "C21+C22", "C21+C22", "C14", "C14", "C14"])
    } else if real_prop == "C23" {
        // memory safety under schedules: rides on the concurrent families that free or recycle
        // memory while other threads run (writes + cancellation, LRU, interned reclamation,
        // struct creation, cycles, unwinding), executed under the quarantining allocator
        *r.pick(&["C08", "C17", "C18", "C20", "C20", "C20", "C21", "C22", "C24", "C21+C22"])
    } else {
        real_prop
    };
    // combined family: token cancellation and a user panic in the same round
    let combined = prop == "C21+C22";
    let prop: &str = if combined { "C21" } else { prop };
    let thorough = tier == Tier::Thorough;
    let mut knobs = Knobs::default();
    let mut class;
    // ---- program
    let cyclic = match prop {
        "C18" => true,
        "C14" => true,
        "C20" => r.pct(65),
        "C21" | "C22" | "C19" => r.pct(45),
        _ => false,
    };
    let prog = if cyclic {
        let mut c = CycCfg::base();
        c.yields = true;
        c.block = (2, if thorough { 6 } else { 4 });
        c.ops = (2, 5);
        // tiny bodies: members that read (almost) nothing but each other — their memos have no
        // own inputs, so durability and revalidation shortcuts decide what happens to them
        let tiny = r.pct(35);
        if tiny {
            c.ops = (1, 2);
        }
        match prop {
            "C14" => {
                c.block_kinds = vec![(Kind::Plain, 3), (Kind::Fix, 2)];
                class = "cyclic_no_recovery".to_string();
            }
            "C18" | "C21" if r.pct(30) => {
                c.block_kinds = vec![(Kind::Fb, 1)];
                class = "cyclic_fallback".to_string();
            }
            _ => {
                c.block_kinds = vec![(Kind::Fix, 3), (Kind::FixJ, 2)];
                c.ret_if_top = r.pct(40);
                class = "cyclic_fixpoint".to_string();
            }
        }
        if tiny {
            class = format!("{class}+tiny");
        }
        gen_cyclic(&mut r, &c)
    } else {
        let mut g = GenCfg::base();
        g.kinds = vec![(Kind::Plain, 10), (Kind::NoEq, 2), (Kind::Multi, 2), (Kind::Mk, 3)];
        g.yields = true;
        g.nodes = (3, if thorough { 10 } else { 7 });
        g.ops = (2, 6);
        g.inputs = (1, 3);
        g.m_choices = vec![2, 3, 4];
        class = "acyclic".to_string();
        match prop {
            "C08" => {
                g.intern_ops = true;
                g.on_it = true;
                g.m_choices = vec![3, 4];
                knobs.hash_mod = if r.pct(60) { 1 } else { 0 };
                class = "interning".into();
            }
            "C24" => {
                g.ts_ops = true;
                g.on_ts = true;
                g.intern_ops = r.pct(50);
                g.mk_bias = 90;
                g.kinds = vec![(Kind::Plain, 4), (Kind::Mk, 8), (Kind::Multi, 2)];
                class = "creators".into();
            }
            "C20" | "C21" | "C22" => {
                g.ts_ops = r.pct(40);
                g.on_ts = true;
                g.intern_ops = r.pct(30);
                if prop == "C20" {
                    g.kinds.push((Kind::Lru, 2));
                }
            }
            _ => {
                g.ts_ops = r.pct(30);
                g.on_ts = true;
            }
        }
        gen_acyclic(&mut r, &g)
    };
    let world = gen_world(&mut r, prog.n_inputs, prog.n_cells, prog.m);
    let m = prog.m as u64;
    let queryable: Vec<u16> = (0..prog.nodes.len()).filter(|i| prog.nodes[*i].kind.keyed_by_node() || prog.nodes[*i].kind == Kind::Zero).map(|i| i as u16).collect();
    let blk: Vec<u16> = (prog.blk_lo..prog.blk_hi).collect();
    // ---- rounds
    let n_rounds = match prop {
        "C17" => r.range(2, 3),
        "C08" => r.range(2, 4),
        "C16" | "C18" | "C24" => r.range(1, 2),
        _ => r.range(1, 3),
    };
    let mut rounds = vec![];
    let mut cur = world.clone();
    let mut written_fields: Vec<(usize, usize)> = vec![];
    // revalidation-race motif: everybody computes X; a joined write changes a field read by a
    // node L below X; then one thread re-validates X while another requests L directly
    let mut race: Option<(u16, u16, (usize, usize))> = None;
    if !cyclic && matches!(real_prop, "C16" | "C17" | "C19") && r.pct(45) {
        let closure = |top: usize| -> Vec<usize> {
            let mut seen = std::collections::BTreeSet::new();
            let mut st = vec![top];
            while let Some(x) = st.pop() {
                if seen.insert(x) {
                    for op in &prog.nodes[x].ops {
                        match op {
                            Op::Call { n, .. } | Op::CallMulti { n, .. } | Op::MkCall { n, .. } => st.push(*n as usize),
                            Op::CallDyn { t, .. } => st.extend(t.iter().map(|x| *x as usize)),
                            _ => {}
                        }
                    }
                }
            }
            seen.into_iter().collect()
        };
        for _ in 0..6 {
            let x = *r.pick(&queryable) as usize;
            let below: Vec<usize> = closure(x).into_iter().filter(|l| *l != x && queryable.contains(&(*l as u16))).collect();
            let cands: Vec<(usize, (usize, usize))> = below
                .iter()
                .filter_map(|l| prog.nodes[*l].ops.iter().find_map(|op| if let Op::In { i, f, .. } = op { Some((*l, (*i as usize, *f as usize))) } else { None }))
                .collect();
            if !cands.is_empty() {
                let (l, fld) = *r.pick(&cands);
                race = Some((x as u16, l as u16, fld));
                break;
            }
        }
    }
    let n_rounds = if race.is_some() { 2 } else { n_rounds };
    for ri in 0..n_rounds {
        let nt = r.range(2, if thorough { 4 } else { 3 });
        // focus motif: all readers of the round work inside the callee closure of one node
        let focus: Option<Vec<u16>> = if r.pct(55) {
            let top = *r.pick(&queryable) as usize;
            let mut seen = std::collections::BTreeSet::new();
            let mut st = vec![top];
            while let Some(x) = st.pop() {
                if seen.insert(x) {
                    for op in &prog.nodes[x].ops {
                        match op {
                            Op::Call { n, .. } | Op::CallMulti { n, .. } | Op::MkCall { n, .. } => st.push(*n as usize),
                            Op::CallDyn { t, .. } => st.extend(t.iter().map(|x| *x as usize)),
                            _ => {}
                        }
                    }
                }
            }
            let v: Vec<u16> = seen.into_iter().filter(|x| queryable.contains(&(*x as u16))).map(|x| x as u16).collect();
            if v.len() >= 2 { Some(v) } else { None }
        } else {
            None
        };
        let mut readers = vec![];
        for _ in 0..nt {
            let k = r.range(1, 3);
            let mut reqs = vec![];
            for _ in 0..k {
                let n = if let Some(f) = &focus { *r.pick(f) } else if !blk.is_empty() && r.pct(70) { *r.pick(&blk) } else if r.pct(50) { queryable[queryable.len() - 1 - r.usize(queryable.len().min(2))] } else { *r.pick(&queryable) };
                let q = Req::Query { n, arg: r.below(m) as u32, deep: r.pct(50) };
                let req = match prop {
                    "C08" if r.pct(60) => Req::Intern { t: *r.pick(&[0u8, 1, 1, 1, 2, 3]), v: r.below(2 * m) as u32 },
                    "C24" if r.pct(40) => Req::NewInput { v: r.below(1000) as u32 },
                    "C24" if r.pct(25) => Req::CloneQueryDrop { n, arg: 0 },
                    _ if r.pct(8) => Req::CloneQueryDrop { n, arg: 0 },
                    _ => q,
                };
                reqs.push(req);
            }
            readers.push(reqs);
        }
        if let Some((x, l, _)) = race {
            // round 0: every thread computes X; round 1: X is re-validated while L is requested
            for (ti, reqs) in readers.iter_mut().enumerate() {
                let n = if ri == 0 || ti == 0 { x } else if ti == 1 { l } else { *r.pick(&[x, l]) };
                reqs.clear();
                reqs.push(Req::Query { n, arg: 0, deep: false });
            }
        }
        let mut round = Round { readers, ..Default::default() };
        match prop {
            "C20" => {
                let op = match r.below(10) {
                    0..=4 => {
                        // mostly fields that some body reads (a write to an unread field cancels
                        // readers but changes nothing); block members first for cyclic programs
                        let mut read_blk: Vec<(usize, usize)> = vec![];
                        let mut read_any: Vec<(usize, usize)> = vec![];
                        for (ni, nd) in prog.nodes.iter().enumerate() {
                            for op in &nd.ops {
                                if let Op::In { i, f, .. } = op {
                                    read_any.push((*i as usize, *f as usize));
                                    if (ni as u16) >= prog.blk_lo && (ni as u16) < prog.blk_hi {
                                        read_blk.push((*i as usize, *f as usize));
                                    }
                                }
                            }
                        }
                        let (i, f) = if !read_blk.is_empty() && r.pct(50) {
                            *r.pick(&read_blk)
                        } else if !read_any.is_empty() && r.pct(70) {
                            *r.pick(&read_any)
                        } else {
                            (r.usize(prog.n_inputs), r.usize(3))
                        };
                        written_fields.push((i, f));
                        let v = r.below(m) as u32;
                        cur.ins[i][f] = v;
                        WriterOp::SetIn { i: i as u16, f: f as u8, v }
                    }
                    5 | 6 => WriterOp::Synthetic,
                    7 => WriterOp::SetLru { cap: r.below(4) as u8 },
                    8 => WriterOp::TriggerLru,
                    _ => WriterOp::TriggerCancel,
                };
                round.writer = Some(op);
                round.writer_delay = *r.pick(&[0u8, 1, 2, 3, 5, 8, 13, 21, 30]);
                // half of the writes are placed inside in-flight work: after the k-th completed body
                if r.pct(50) {
                    round.writer_after = r.range(1, 6) as u8;
                    round.writer_delay = *r.pick(&[0u8, 0, 1, 2, 3]);
                }
            }
            "C21" => {
                let k = r.range(1, 2);
                for _ in 0..k {
                    round.cancels.push((r.usize(nt) as u8, r.below(40) as u8));
                }
            }
            _ => {}
        }
        rounds.push(round);
        // a joined write between rounds (no readers alive): the next round runs in a new revision
        let fallback = prog.nodes.iter().any(|n| n.kind == Kind::Fb);
        if ri + 1 < n_rounds && !fallback && !matches!(prop, "C20") {
            let mut read_fields: Vec<(usize, usize)> = vec![];
            for nd in &prog.nodes {
                for op in &nd.ops {
                    if let Op::In { i, f, .. } = op {
                        read_fields.push((*i as usize, *f as usize));
                    }
                }
            }
            let (i, f) = if let Some((_, _, fld)) = race { fld } else if !read_fields.is_empty() && r.pct(80) { *r.pick(&read_fields) } else { (r.usize(prog.n_inputs), r.usize(3)) };
            let v = if race.is_some() { (cur.ins[i][f] + 1 + r.below(m - 1) as u32) % prog.m } else { r.below(m) as u32 };
            cur.ins[i][f] = v;
            written_fields.push((i, f));
            rounds.push(Round { readers: vec![], writer: Some(WriterOp::SetIn { i: i as u16, f: f as u8, v }), ..Default::default() });
        }
    }
    let strategy = match r.below(20) {
        0..=7 => "random",
        8..=11 => "pct",
        12..=18 => "pctl",
        _ => "rr",
    };
    // durability profile for the concurrent classes that involve writes / cancellation
    let mut field_durs = vec![];
    if matches!(prop, "C20" | "C21" | "C17") && r.pct(50) {
        // contrast profile: the fields the writer touches stay LOW, everything else is durable
        let contrast = !written_fields.is_empty() && r.pct(50);
        for i in 0..prog.n_inputs {
            for f in 0..3 {
                let d = if contrast {
                    if written_fields.contains(&(i, f)) { Dur::Low } else { *r.pick(&[Dur::Medium, Dur::High, Dur::High]) }
                } else {
                    *r.pick(&[Dur::Low, Dur::Low, Dur::Medium, Dur::High, Dur::High])
                };
                if d != Dur::Low {
                    field_durs.push((i as u16, f as u8, d));
                }
            }
        }
    }
    let conc = ConcCase {
        scenario: prop.to_string(),
        field_durs,
        rounds,
        sched_seed: r.next(),
        strategy: strategy.to_string(),
        stay_pct: *r.pick(&[30, 50, 70, 85, 95]),
        pct_depth: r.range(1, if thorough { 5 } else { 3 }) as u32,
        pct_horizon: *r.pick(&[100u64, 250, 500, 500, 1000]),
        spurious_pct: if r.pct(30) { 3 } else { 0 },
        max_steps: 400_000,
        choices: vec![],
    };
    class = format!("{class}+{strategy}");
    if race.is_some() {
        class = format!("{class}+race");
    }
    // fault plan for the panic scenarios: a panic at a random user callback
    let mut panic_at = None;
    let mut fault_mask = u32::MAX;
    if prop == "C22" || combined {
        panic_at = Some(r.below(60));
        // event-callback panics during stale-output deletion are a recorded finding of the
        // single-handle check; the concurrent class concentrates on waiting threads
        fault_mask = (1 << Cb::BodyOp as u32) | (1 << Cb::ValEq as u32) | (1 << Cb::CycleFn as u32) | (1 << Cb::CycleInitial as u32);
    }
    if real_prop == "C19" || real_prop == "C23" {
        class = format!("{prop}:{class}");
    }
    Case { property: real_prop.to_string(), engine: "e3".into(), class, seed, knobs, prog, world: (&world).into(), hist: vec![], panic_at, fault_mask, conc: Some(conc), expect: vec![] }
}

pub fn make_case(prop: &str, seed: u64, tier: Tier) -> Case {
    #[cfg(feature = "e3")]
    {
        return make_conc_case(prop, seed, tier);
    }
    #[allow(unreachable_code)]
    make_case_e1(prop, seed, tier)
}

pub fn make_case_e1(prop: &str, seed: u64, tier: Tier) -> Case {
    if prop == "C23" {
        // memory safety rides on the histories of the other single-handle classes (plus held
        // references and one injected panic in a third of the runs), executed under the
        // quarantining allocator
        let mut r = Rng::new(seed ^ 0xC23);
        let base = *r.pick(&["C01", "C01", "C05", "C07", "C09", "C10", "C11", "C12", "C13", "C15", "C06"]);
        let mut c = make_case_e1(base, seed, tier);
        c.class = format!("{base}:{}", c.class);
        c.property = "C23".into();
        // hold references of Ref nodes at random points
        let refs: Vec<u16> = (0..c.prog.nodes.len()).filter(|i| c.prog.nodes[*i].kind == Kind::Ref).map(|i| i as u16).collect();
        if !refs.is_empty() {
            let k = r.range(1, 4);
            for _ in 0..k {
                let pos = r.usize(c.hist.len() + 1);
                c.hist.insert(pos, Step::Hold { n: *r.pick(&refs) });
            }
        }
        if r.pct(33) {
            c.panic_at = Some(r.below(120));
        }
        return c;
    }
    if prop == "C22" && Rng::new(seed ^ 0xC22_0001).pct(50) {
        // fault enumeration also rides on the base histories of the classes that churn structs,
        // interned slots and LRU values (their rare events — discards, slot reuse — become
        // fault points inside histories that later revisit the affected memos)
        let mut r = Rng::new(seed ^ 0xC22_0002);
        let base = *r.pick(&["C07", "C07", "C07", "C07", "C09", "C06", "C05"]);
        let mut c = make_case_e1(base, seed, tier);
        c.class = format!("ride:{base}:{}", c.class);
        c.property = "C22".into();
        let cap = if tier == Tier::Thorough { 60 } else { 30 };
        c.hist.truncate(cap);
        return c;
    }
    let mut r = Rng::new(seed ^ crate::rng::hash_str(0, prop));
    let mut g = GenCfg::base();
    let mut h = HistCfg::base();
    let mut knobs = Knobs::default();
    let mut class = "default".to_string();
    match prop {
        "C01" => {
            g.kinds = vec![(Kind::Plain, 10), (Kind::NoEq, 3), (Kind::Multi, 3), (Kind::Ref, 2), (Kind::Mk, 4), (Kind::Lru, 2)];
            g.on_ts = true;
            g.on_it = true;
            g.zero = true;
            g.ts_ops = r.pct(70);
            g.intern_ops = r.pct(60);
            g.untracked_ops = r.pct(40);
            g.cells = (0, 2);
            g.nodes = (3, 12);
            h.w_burst = 3;
            h.w_setext = 6;
            h.w_intern_out = if g.intern_ops { 4 } else { 0 };
            knobs.hash_mod = if r.pct(50) { 1 } else { 0 };
            knobs.fresh_every = if r.pct(30) { 4 } else { 0 };
            h.motif_pct = 35;
            if r.pct(35) {
                class = "disturbed".into();
                h.w_setlru = 3;
                h.w_triglru = 3;
                h.w_trigcancel = 3;
                h.w_clone = 6;
            } else {
                class = "fault_free".into();
            }
        }
        "C02" => {
            // durability churn: many input reads behind input-controlled branches, every write draws a durability
            g.kinds = vec![(Kind::Plain, 10), (Kind::NoEq, 2), (Kind::Multi, 2), (Kind::Mk, 4)];
            g.ts_ops = r.pct(50);
            g.on_ts = true;
            g.nodes = (3, 9);
            g.inputs = (2, 4);
            g.m_choices = vec![2, 2, 3];
            h.steps = (8, 36);
            h.w_set = 45;
            h.w_synth = 8;
            h.w_burst = 2;
            h.durs = vec![None, Some(Dur::Low), Some(Dur::Medium), Some(Dur::High), Some(Dur::Low), Some(Dur::Medium), Some(Dur::High)];
            if r.pct(40) {
                h.durs.push(Some(Dur::Never));
                h.synth_durs.push(Dur::Never);
                class = "with_never_change".into();
            } else {
                class = "churn".into();
            }
            knobs.fresh_every = if r.pct(20) { 5 } else { 0 };
            h.motif_pct = 60;
        }
        "C03" => {
            g.kinds = vec![(Kind::Plain, 10), (Kind::NoEq, 2), (Kind::Multi, 2), (Kind::Ref, 2), (Kind::Mk, 3), (Kind::Lru, 1)];
            g.on_ts = true;
            g.on_it = true;
            g.zero = true;
            g.ts_ops = r.pct(50);
            g.intern_ops = r.pct(30);
            g.untracked_ops = r.pct(20);
            g.cells = (0, 1);
            g.m_choices = vec![2, 2, 3, 4];
            h.w_setext = 3;
            h.w_burst = 2;
            class = if g.ts_ops || g.intern_ops { "structs".into() } else { "core".into() };
            h.motif_pct = 35;
        }
        "C04" => {
            g.kinds = vec![(Kind::Plain, 10), (Kind::NoEq, 1), (Kind::Multi, 2), (Kind::Lru, 2), (Kind::Mk, 1)];
            g.untracked_ops = true;
            g.cells = (1, 3);
            g.m_choices = vec![2, 2, 3];
            g.ts_ops = r.pct(20);
            h.w_setext = 25;
            h.w_set = 12;
            h.w_synth = 8;
            h.w_triglru = 2;
            h.w_setlru = 2;
            class = "acyclic".into();
        }
        "C06" => {
            g.kinds = vec![(Kind::Plain, 6), (Kind::Mk, 8), (Kind::Multi, 1)];
            g.ts_ops = true;
            g.on_ts = true;
            g.mk_bias = 90;
            g.m_choices = vec![2, 3, 4];
            g.ops = (3, 10);
            h.w_query = 55;
            h.w_set = 35;
            h.motif_pct = 35;
            // colliding identity hashes: different identities meet in one slot
            knobs.hash_mod = if r.pct(40) { 1 } else { 0 };
            class = if knobs.hash_mod == 1 { "structs+colliding_hashes".into() } else { "structs".into() };
        }
        "C05" => {
            g.kinds = vec![(Kind::Plain, 6), (Kind::Lru, 10), (Kind::NoEq, 1)];
            g.nodes = (5, 14);
            g.ops = (2, 7);
            g.untracked_ops = r.pct(25);
            g.cells = (0, 1);
            g.acc_ops = r.pct(20);
            g.m_choices = vec![2, 3, 4];
            h.steps = (10, 50);
            h.w_query = 55;
            h.w_set = 18;
            h.w_synth = 8;
            h.w_burst = 2;
            h.w_setlru = 7;
            h.w_triglru = 7;
            h.w_setext = 3;
            h.w_acc = if g.acc_ops { 4 } else { 0 };
            h.w_clone = 3;
            class = "lru".into();
        }
        "C08" | "C09" => {
            // interning under every retention setting x durability class, bursts with no interning
            g.kinds = vec![(Kind::Plain, 10), (Kind::NoEq, 1), (Kind::Mk, 1)];
            g.intern_ops = true;
            g.intern_types = match r.below(5) {
                0 => vec![0],
                1 => vec![1],
                2 => vec![2],
                3 => vec![3, 0],
                _ => vec![0, 1, 2, 3],
            };
            g.on_it = r.pct(60);
            g.nodes = (3, 8);
            g.ops = (2, 8);
            g.m_choices = vec![4, 8, 8];
            h.steps = (12, 50);
            h.w_set = 35;
            h.w_query = 45;
            h.w_synth = 6;
            h.w_burst = 6;
            h.w_intern_out = 3;
            knobs.hash_mod = 1;
            match r.below(3) {
                0 => {
                    h.durs = vec![None];
                    class = "all_low".into();
                }
                1 => {
                    h.durs = vec![None, Some(Dur::Low), Some(Dur::Medium), Some(Dur::High)];
                    class = "mixed_durability".into();
                }
                _ => {
                    h.durs = vec![Some(Dur::Medium), Some(Dur::High)];
                    class = "durable".into();
                }
            }
        }
        "C07" => {
            // struct + interned churn with aggressive reclamation; functions keyed by structs,
            // interned values and (Key, u32) tuples
            g.kinds = vec![(Kind::Plain, 6), (Kind::Mk, 6), (Kind::Multi, 3), (Kind::NoEq, 1)];
            g.ts_ops = r.pct(75);
            g.intern_ops = r.pct(75) || !g.ts_ops;
            g.intern_types = vec![0, 0, 1, 2];
            g.on_ts = true;
            g.on_it = true;
            g.mk_bias = 80;
            g.m_choices = vec![3, 4, 8];
            g.ops = (3, 10);
            h.steps = (10, 40);
            h.w_set = 35;
            h.w_synth = 8;
            h.w_burst = 4;
            h.w_intern_out = 4;
            h.durs = vec![None, None, None, Some(Dur::Low)];
            knobs.hash_mod = 1;
            class = "churn".into();
        }
        "C10" => {
            g.kinds = vec![(Kind::Plain, 6), (Kind::Mk, 9)];
            g.ts_ops = true;
            g.spec = true;
            g.on_ts = r.pct(60);
            g.mk_bias = 90;
            g.m_choices = vec![2, 3, 4];
            g.ops = (3, 10);
            g.nodes = (3, 8);
            h.w_query = 55;
            h.w_set = 35;
            class = "specify".into();
        }
        "C11" => {
            g.kinds = vec![(Kind::Plain, 10), (Kind::NoEq, 2), (Kind::Multi, 2), (Kind::Mk, 2), (Kind::Lru, 1), (Kind::Ref, 1)];
            g.acc_ops = true;
            g.ts_ops = r.pct(25);
            g.on_ts = true;
            g.zero = true;
            g.m_choices = vec![2, 3, 4];
            h.w_acc = 40;
            h.w_query = 25;
            h.w_set = 35;
            h.w_synth = 5;
            h.durs = vec![None, None, Some(Dur::Low), Some(Dur::Medium), Some(Dur::High), Some(Dur::Never)];
            class = "accumulate".into();
        }
        "C26" => {
            g.kinds = if r.pct(50) {
                // chains of non-persisted functions under several persisted callers (edge flattening)
                vec![(Kind::Plain, 8), (Kind::Multi, 2), (Kind::NoEq, 7), (Kind::Lru, 3), (Kind::Mk, 1)]
            } else {
                vec![(Kind::Plain, 10), (Kind::Multi, 3), (Kind::Mk, 4), (Kind::Ref, 1), (Kind::NoEq, 2), (Kind::Lru, 1)]
            };
            g.on_ts = true;
            g.on_it = true;
            g.zero = true;
            g.ts_ops = r.pct(50);
            g.intern_ops = r.pct(50);
            g.m_choices = vec![2, 3, 4, 8];
            g.nodes = (3, 9);
            h.steps = (6, 26);
            h.w_snapshot = 12;
            h.w_burst = 2;
            h.motif_pct = 20;
            knobs.hash_mod = if r.pct(50) { 1 } else { 0 };
            class = "persist".into();
        }
        "C22" => {
            // base histories for fault enumeration: small, every kind of user callback reachable
            g.kinds = vec![(Kind::Plain, 10), (Kind::NoEq, 2), (Kind::Multi, 2), (Kind::Mk, 4), (Kind::Lru, 1)];
            g.on_ts = true;
            g.on_it = true;
            g.ts_ops = r.pct(70);
            g.intern_ops = r.pct(60);
            g.acc_ops = r.pct(20);
            g.nodes = (3, 7);
            g.ops = (2, 6);
            g.m_choices = vec![2, 3, 4];
            h.steps = (5, 14);
            h.w_intern_out = if g.intern_ops { 4 } else { 0 };
            h.w_acc = if g.acc_ops { 5 } else { 0 };
            h.w_clone = 3;
            knobs.hash_mod = if r.pct(50) { 1 } else { 0 };
            class = "acyclic".into();
        }
        "C12" | "C13" | "C14" | "C15" => {}
        _ => panic!("unknown property {prop}"),
    }
    scale(tier, &mut g, &mut h);
    let cyc = match prop {
        "C12" => {
            let mut c = CycCfg::base();
            c.ret_if_top = r.pct(50);
            if tier == Tier::Thorough {
                c.block.1 = 8;
            }
            class = "fixpoint".into();
            // tiny bodies: members that read (almost) nothing but each other, so what a member's
            // memo records about the rest of the cycle decides whether it is revalidated
            if r.pct(35) {
                c.ops = (1, 3);
                c.block = (2, 4);
                class = "fixpoint+tiny".into();
            }
            Some(c)
        }
        "C13" => {
            let mut c = CycCfg::base();
            c.block_kinds = vec![(Kind::Fb, 1)];
            class = "fallback".into();
            Some(c)
        }
        "C14" => {
            let mut c = CycCfg::base();
            c.block_kinds = vec![(Kind::Plain, 3), (Kind::Fix, 2), (Kind::NoEq, 1)];
            class = "no_recovery".into();
            Some(c)
        }
        "C04" if seed % 4 == 0 => {
            // untracked reads by members of fixpoint cycles
            let mut c = CycCfg::base();
            c.untracked_in_block = true;
            c.block = (1, 4);
            class = "cyclic_untracked".into();
            Some(c)
        }
        "C22" if seed % 5 < 2 => {
            let mut c = CycCfg::base();
            c.block = (1, 3);
            c.block_kinds = vec![(Kind::Fix, 2), (Kind::FixJ, 3)];
            class = "cyclic".into();
            Some(c)
        }
        "C15" => {
            let mut c = CycCfg::base();
            c.bad = true;
            c.block = (1, 4);
            class = "nonconverging".into();
            Some(c)
        }
        _ => None,
    };
    if let Some(c) = cyc {
        let prog = gen_cyclic(&mut r, &c);
        let world = gen_world(&mut r, prog.n_inputs, prog.n_cells, prog.m);
        h.steps = (6, 28);
        h.w_set = 35;
        h.w_query = 55;
        h.w_synth = 4;
        h.w_trigcancel = 2;
        h.w_clone = 3;
        if prop == "C15" {
            h.steps = (4, 14);
        }
        if prop == "C04" {
            h.w_setext = 30;
            h.w_set = 10;
            h.w_trigcancel = 0;
        }
        if prop == "C22" {
            h.steps = (4, 10);
            h.w_trigcancel = 0;
            h.w_acc = 0;
        }
        if prop == "C13" && r.pct(40) {
            // all entry orders inside one revision (free of the recorded finding's trigger)
            h.w_set = 0;
            h.w_synth = 0;
            h.w_trigcancel = 0;
            class = "fallback_single_revision".into();
        }
        let mut hist = gen_history(&mut r, &prog, &h);
        if matches!(prop, "C12" | "C13" | "C14") && r.pct(35) {
            // motif "finalize, then change one member's input": enter the cycle somewhere, request
            // members directly (which finalizes their memos), write a field that a block member
            // reads, enter through another node, request the members again
            let blk: Vec<u16> = (prog.blk_lo..prog.blk_hi).collect();
            let mut fields: Vec<(u16, u8)> = vec![];
            for b in &blk {
                for op in &prog.nodes[*b as usize].ops {
                    if let Op::In { i, f, .. } = op {
                        fields.push((*i, *f));
                    }
                }
            }
            if !blk.is_empty() && !fields.is_empty() {
                let all: Vec<u16> = (0..prog.nodes.len() as u16).collect();
                let mut m = vec![Step::Query { n: *r.pick(&all), arg: 0 }];
                let k = r.range(1, blk.len());
                for _ in 0..k {
                    m.push(Step::Query { n: *r.pick(&blk), arg: 0 });
                }
                let (i, f) = *r.pick(&fields);
                m.push(Step::SetIn { i, f, v: r.below(prog.m as u64) as u32, d: None });
                m.push(Step::Query { n: *r.pick(&all), arg: 0 });
                let mut order = blk.clone();
                for a in (1..order.len()).rev() {
                    let b = r.usize(a + 1);
                    order.swap(a, b);
                }
                for b in order {
                    m.push(Step::Query { n: b, arg: 0 });
                }
                let pos = r.usize(hist.len() + 1);
                for (j, st) in m.into_iter().enumerate() {
                    hist.insert(pos + j, st);
                }
                class = format!("{class}+finalize_motif");
            }
        }
        if let Some((i, f, _)) = prog.bad_guard {
            // make sure the guard is toggled: bad mode on early, off later
            let k = hist.len() / 2;
            hist.insert(0, Step::SetIn { i, f, v: 1, d: None });
            hist.insert(k + 1, Step::SetIn { i, f, v: 0, d: None });
            let top = (prog.nodes.len() - 1) as u16;
            hist.push(Step::Query { n: top, arg: 0 });
            for b in prog.blk_lo..prog.blk_hi {
                hist.push(Step::Query { n: b, arg: 0 });
            }
        }
        return Case { property: prop.to_string(), engine: "e1".into(), class, seed, knobs, prog, world: (&world).into(), hist, panic_at: None, fault_mask: u32::MAX, conc: None, expect: vec![] };
    }
    // swarm knob: tiny programs (few nodes, 1-3 ops per body, 1-2 inputs): every body reads
    // few things, so durability mixes, equal values and exact dependency shapes are common
    if r.pct(40) {
        g.nodes = (2.max(g.nodes.0.min(3)), 6);
        g.ops = (1, 3);
        g.inputs = (1, 2);
        class = format!("{class}+tiny");
    }
    let mut prog = gen_acyclic(&mut r, &g);
    let mut world = gen_world(&mut r, prog.n_inputs, prog.n_cells, prog.m);
    // debugging aid: explore histories over a fixed program (never set by the checks)
    if let Ok(p) = std::env::var("VERIF_FIXED_PROG") {
        let c: Case = serde_json::from_str(&std::fs::read_to_string(p).unwrap()).unwrap();
        prog = c.prog;
        world = (&c.world).into();
    }
    let mut hist = gen_history(&mut r, &prog, &h);
    // durability profile: the history starts by giving every field a durability, so that
    // memos above LOW durability (and later decreases / increases) are common
    let profile_pct = match prop {
        "C02" => 85,
        "C01" | "C03" | "C06" | "C11" => 35,
        "C07" | "C09" => 50,
        _ => 0,
    };
    if r.pct(h.motif_pct) {
        hist = splice_motifs(&mut r, &prog, &world, hist);
        class = format!("{class}+motifs");
    }
    if r.pct(profile_pct) {
        let style = r.below(4);
        let mut pre = vec![];
        for i in 0..prog.n_inputs {
            let per_input = *r.pick(&[Dur::Low, Dur::Medium, Dur::High, Dur::High]);
            for f in 0..3 {
                let d = match style {
                    0 => Dur::High,
                    1 => Dur::Medium,
                    2 => per_input,
                    _ => *r.pick(&[Dur::Low, Dur::Medium, Dur::High]),
                };
                pre.push(Step::SetIn { i: i as u16, f: f as u8, v: world.ins[i][f], d: Some(d) });
            }
        }
        class = format!("{class}+durprofile{style}");
        // with a profile, most writes keep the field's durability and some move it one level
        for s in hist.iter_mut() {
            if let Step::SetIn { d, .. } = s {
                if r.pct(60) {
                    *d = None;
                }
            }
        }
        pre.extend(hist);
        hist = pre;
    }

    Case { property: prop.to_string(), engine: "e1".into(), class, seed, knobs, prog, world: (&world).into(), hist, panic_at: None, fault_mask: u32::MAX, conc: None, expect: vec![] }
}

/// Is this run non-trivial for its property (measured, per run)?
pub fn nontrivial(case: &Case, out: &RunOut) -> bool {
    let st = |k: &str| out.stats.get(k).copied().unwrap_or(0);
    let base = {
        // a request after a write after a request
        let mut phase = 0;
        for s in &case.hist {
            let is_q = matches!(s, Step::Query { .. } | Step::QueryMk { .. } | Step::CloneQueryDrop { .. } | Step::Accumulated { .. });
            match phase {
                0 if is_q => phase = 1,
                1 if s.is_mut() => phase = 2,
                2 if is_q => phase = 3,
                _ => {}
            }
        }
        phase == 3 && st("ev_will_execute") > 0
    };
    if case.engine == "e3" {
        // a concurrent run is non-trivial when threads really interleaved on shared work
        return st("context_switches") >= 2 && st("ev_will_execute") > 0 && (st("reader_values_compared") > 0 || st("interned_outside") > 0 || st("inputs_created") > 0);
    }
    match case.property.as_str() {
        "C02" => {
            let mut ds = std::collections::BTreeSet::new();
            for s in &case.hist {
                if let Step::SetIn { d: Some(d), .. } = s {
                    ds.insert(*d);
                }
            }
            base && ds.len() >= 2 && st("ev_did_validate_memo") > 0
        }
        "C03" => base && (st("reexec_justified") > 0 || st("ev_did_validate_memo") > 0),
        "C04" => base && st("untracked_reexecuted_in_revision") > 0,
        "C05" => base && (st("lru_evicted_value_recomputed") > 0 || st("lru_bound_checked_at_capacity") > 0),
        "C08" | "C09" => base && (st("intern_reuse_checked") > 0 || st("intern_identity_kept") > 0),
        "C26" => st("restores") > 0 && st("ev_did_validate_memo") + st("ev_will_execute") > 0,
        "C23" => st("blocks_quarantined") > 0 && st("ev_will_execute") > 0,
        "C22" => st("faults_fired") > 0 && st("fault_step_retried") > 0,
        "C12" => base && st("cycle_iterations") > 0,
        "C13" => base && st("cycles_finalized") > 0,
        "C14" => st("cycle_panic_seen") > 0 && st("ev_will_execute") > 0,
        "C15" => st("nonconvergence_panic_seen") > 0,
        "C06" => base && (st("ts_identity_kept") > 0 || st("ts_discard_seen") > 0),
        "C07" => base && (st("slot_generation_bumped") > 0 || st("interned_slot_reused") > 0),
        "C10" => base && case.prog.nodes.iter().any(|n| n.kind == Kind::Spec) && case.prog.nodes.iter().any(|n| n.ops.iter().any(|o| matches!(o, Op::Specify { .. }))),
        "C11" => base && st("accumulated_nonempty") > 0,
        _ => {
            // a request after a write after a request
            let mut phase = 0;
            for s in &case.hist {
                let is_q = matches!(s, Step::Query { .. } | Step::QueryMk { .. } | Step::CloneQueryDrop { .. } | Step::Accumulated { .. });
                match phase {
                    0 if is_q => phase = 1,
                    1 if s.is_mut() => phase = 2,
                    2 if is_q => phase = 3,
                    _ => {}
                }
            }
            phase == 3 && st("ev_will_execute") > 0
        }
    }
}
