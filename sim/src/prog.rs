//! Program / history model shared by every engine, and the op-stepping function that both the
//! real (salsa) host and the reference host run.

use serde::{Deserialize, Serialize};

pub const NREG: usize = 4;

#[derive(Clone, Copy, Debug, PartialEq, Eq, Hash, Serialize, Deserialize, PartialOrd, Ord)]
pub enum Kind {
    Plain,
    NoEq,
    Lru,
    Multi,
    Zero,
    Ref,
    Mk,
    OnTs,
    Spec,
    OnIt,
    Fix,
    FixJ,
    FixBad,
    Fb,
    /// persisted twins (persistence build only)
    PPlain,
    PMulti,
    PMk,
    POnTs,
}

impl Kind {
    /// kinds whose salsa key is a `Key` input (one per program node)
    pub fn keyed_by_node(self) -> bool {
        !matches!(self, Kind::Zero | Kind::OnTs | Kind::Spec | Kind::OnIt | Kind::POnTs)
    }
    pub fn is_cycle_kind(self) -> bool {
        matches!(self, Kind::Fix | Kind::FixJ | Kind::FixBad | Kind::Fb)
    }
    pub fn is_maker(self) -> bool {
        matches!(self, Kind::Mk | Kind::PMk)
    }
    pub fn is_multi(self) -> bool {
        matches!(self, Kind::Multi | Kind::PMulti)
    }
    pub fn persisted(self) -> bool {
        matches!(self, Kind::PPlain | Kind::PMulti | Kind::PMk | Kind::POnTs)
    }
}

#[derive(Clone, Copy, Debug, PartialEq, Eq, Hash, Serialize, Deserialize)]
pub enum AOp {
    Add,
    Sub,
    Mul,
    Or,
    And,
    Xor,
    Min,
    Max,
}

#[derive(Clone, Copy, Debug, PartialEq, Eq, Hash, Serialize, Deserialize)]
pub enum Cmp {
    Lt,
    Eq,
    Ne,
    Ge,
}

#[derive(Clone, Debug, PartialEq, Eq, Hash, Serialize, Deserialize)]
pub enum Op {
    Const { d: u8, c: u32 },
    In { d: u8, i: u16, f: u8 },
    Call { d: u8, n: u16 },
    CallDyn { d: u8, s: u8, t: Vec<u16> },
    CallMulti { d: u8, n: u16, s: u8 },
    Arith { d: u8, a: u8, b: u8, o: AOp },
    IfSkip { s: u8, c: Cmp, k: u32, n: u8 },
    NewTs { i: u8, a: u8, b: u8 },
    ReadTs { d: u8, h: u8, f: u8 },
    MkCall { d: u8, n: u16 },
    CallOnTs { d: u8, h: u8 },
    CallSpec { d: u8, h: u8 },
    Specify { h: u8, s: u8 },
    Intern { t: u8, s: u8 },
    ReadIt { d: u8, h: u8 },
    CallOnIt { d: u8, h: u8 },
    Acc { s: u8 },
    Untracked { d: u8, c: u8 },
    Yield,
    Ret { s: u8 },
    /// saturation short-circuit: if r[s] is the top of the lattice (m-1) return top immediately.
    /// Monotone (top dominates every alternative) but makes the remaining calls value-dependent.
    RetIfTop { s: u8 },
}

#[derive(Clone, Debug, PartialEq, Eq, Hash, Serialize, Deserialize)]
pub struct Node {
    pub kind: Kind,
    pub ops: Vec<Op>,
}

#[derive(Clone, Debug, PartialEq, Eq, Hash, Serialize, Deserialize)]
pub struct Program {
    /// value modulus (values are in 0..m); for cyclic programs a power of two (bit sets)
    pub m: u32,
    pub n_inputs: usize,
    pub n_cells: usize,
    pub nodes: Vec<Node>,
    /// fallback value of `Fb` nodes is `fb_base + node`
    #[serde(default)]
    pub fb_base: u32,
    /// cyclic programs: nodes in [blk_lo, blk_hi) may call each other in any direction; nodes
    /// below only call lower nodes, nodes above call lower nodes (0,0 = acyclic program)
    #[serde(default)]
    pub blk_lo: u16,
    #[serde(default)]
    pub blk_hi: u16,
    /// non-monotone ("bad") ops are guarded by this input field being non-zero
    #[serde(default)]
    pub bad_guard: Option<(u16, u8, u16)>,
}

impl Program {
    pub fn node_of_kind(&self, k: Kind) -> Option<usize> {
        self.nodes.iter().position(|n| n.kind == k)
    }
    pub fn is_cyclic(&self) -> bool {
        self.blk_hi > self.blk_lo
    }
    pub fn in_block(&self, n: usize) -> bool {
        n >= self.blk_lo as usize && n < self.blk_hi as usize
    }
    /// Structural validity (used by the shrinker so that minimised programs stay inside the
    /// class the oracle is defined for): acyclic call discipline outside the block, and inside
    /// the block the taint discipline that keeps bodies monotone and the call-graph shape
    /// independent of block values.
    pub fn valid(&self) -> bool {
        let (lo, hi) = (self.blk_lo as usize, self.blk_hi as usize);
        for (i, node) in self.nodes.iter().enumerate() {
            let in_blk = self.in_block(i);
            let len = node.ops.len();
            let mut st: Vec<Option<[bool; NREG]>> = vec![None; len + 1];
            st[0] = Some([false; NREG]);
            let join = |slot: &mut Option<[bool; NREG]>, s: [bool; NREG]| match slot {
                None => *slot = Some(s),
                Some(o) => {
                    for k in 0..NREG {
                        o[k] |= s[k];
                    }
                }
            };
            for pc in 0..len {
                let Some(cur) = st[pc] else { continue };
                let mut out = cur;
                let ok_target = |t: usize| -> bool {
                    if in_blk { t < hi } else { t < i }
                };
                let blk_t = |t: usize| t >= lo && t < hi;
                match &node.ops[pc] {
                    Op::Const { d, .. } | Op::In { d, .. } | Op::Untracked { d, .. } => out[*d as usize] = false,
                    Op::Call { d, n } | Op::CallMulti { d, n, .. } | Op::MkCall { d, n } => {
                        if !ok_target(*n as usize) {
                            return false;
                        }
                        out[*d as usize] = blk_t(*n as usize);
                    }
                    Op::CallDyn { d, s, t } => {
                        if t.iter().any(|x| !ok_target(*x as usize)) {
                            return false;
                        }
                        if self.is_cyclic() && i < hi && cur[*s as usize] {
                            return false;
                        }
                        out[*d as usize] = t.iter().any(|x| blk_t(*x as usize));
                    }
                    Op::Arith { d, a, b, o } => {
                        let t = cur[*a as usize] || cur[*b as usize];
                        if t && self.is_cyclic() && i < hi && !matches!(o, AOp::Or | AOp::And) {
                            let bad_ok = matches!(self.bad_guard, Some((_, _, bn)) if bn as usize == i) && *o == AOp::Add;
                            if !bad_ok {
                                return false;
                            }
                        }
                        out[*d as usize] = t;
                    }
                    Op::IfSkip { s, n, .. } => {
                        if self.is_cyclic() && i < hi && cur[*s as usize] {
                            return false;
                        }
                        let tgt = (pc + 1 + *n as usize).min(len);
                        join(&mut st[tgt], cur);
                    }
                    Op::Ret { .. } => continue,
                    Op::RetIfTop { .. } => {
                        // only meaningful (and only generated) in fixpoint blocks
                        if self.nodes.iter().any(|x| x.kind == Kind::Fb) {
                            return false;
                        }
                    }
                    _ => {}
                }
                join(&mut st[pc + 1], out);
            }
        }
        // the guard of the non-monotone step must still be intact
        if let Some((gi, gf, bn)) = self.bad_guard {
            let ops = &self.nodes[bn as usize].ops;
            let k = ops.len();
            let intact = k >= 6
                && matches!(&ops[k - 5], Op::In { d: 3, i, f } if *i == gi && *f == gf)
                && matches!(&ops[k - 4], Op::IfSkip { s: 3, c: Cmp::Eq, k: 0, n: 2 })
                && matches!(&ops[k - 3], Op::Const { d: 1, c: 1 })
                && matches!(&ops[k - 2], Op::Arith { d: 0, a: 0, b: 1, o: AOp::Add })
                && matches!(&ops[k - 1], Op::Ret { s: 0 });
            if !intact {
                return false;
            }
            // nothing may jump into the middle of the pattern
            for (pc, op) in ops.iter().enumerate() {
                if let Op::IfSkip { n, .. } = op {
                    let tgt = pc + 1 + *n as usize;
                    if pc < k - 6 && tgt > k - 6 {
                        return false;
                    }
                }
            }
        }
        true
    }
    pub fn shape_hash(&self) -> u64 {
        use std::hash::{Hash, Hasher};
        let mut h = std::collections::hash_map::DefaultHasher::new();
        self.hash(&mut h);
        h.finish()
    }
}

#[derive(Clone, Copy, Debug, PartialEq, Eq, Hash, Serialize, Deserialize, PartialOrd, Ord)]
pub enum Dur {
    Low,
    Medium,
    High,
    Never,
}

/// One step of a single-handle history.
#[derive(Clone, Debug, PartialEq, Eq, Hash, Serialize, Deserialize)]
pub enum Step {
    /// write input `i` field `f`; `d = None` keeps the field's durability (plain `.to(v)`)
    SetIn { i: u16, f: u8, v: u32, d: Option<Dur> },
    Synthetic { d: Dur },
    Burst { n: u8, d: Dur },
    /// change an external (untracked) cell, then start a new revision with a synthetic write
    SetExt { c: u8, v: u32, d: Dur },
    /// request a node (arg used by Multi kinds only)
    Query { n: u16, arg: u32 },
    /// request a maker node and, through the returned handles, every field / OnTs / Spec result
    QueryMk { n: u16, deep: bool },
    Accumulated { n: u16, arg: u32 },
    SetLru { cap: u8 },
    TriggerLru,
    TriggerCancel,
    /// clone the handle, query on the clone, drop the clone
    CloneQueryDrop { n: u16, arg: u32 },
    /// direct interning from outside any query followed by a field read
    InternOutside { t: u8, v: u32 },
    /// cancel the handle's own token, then query (must unwind with Cancelled::Local), then retry
    LocalCancelQuery { n: u16, arg: u32 },
    /// serialize the database and continue on a freshly deserialized one
    SnapshotRestore,
    /// keep the reference returned by q_ref(n) and re-validate it at the next mutable step
    Hold { n: u16 },
}

impl Step {
    pub fn is_mut(&self) -> bool {
        matches!(
            self,
            Step::SetIn { .. }
                | Step::Synthetic { .. }
                | Step::Burst { .. }
                | Step::SetExt { .. }
                | Step::SetLru { .. }
                | Step::TriggerLru
                | Step::TriggerCancel
                | Step::SnapshotRestore
        )
    }
}

/// What user code is running; fault plans address callbacks by (class, ordinal).
#[derive(Clone, Copy, Debug, PartialEq, Eq, Hash, Serialize, Deserialize, PartialOrd, Ord)]
pub enum Cb {
    BodyOp,
    ValEq,
    ValHash,
    CycleFn,
    CycleInitial,
    Event,
}

// ---------------------------------------------------------------------------------------------
// Op stepping, generic over the host (salsa or reference).

pub trait Host {
    type Ts: Clone;
    type It: Clone;
    fn read_in(&mut self, i: usize, f: usize) -> u32;
    fn call(&mut self, node: usize) -> u32;
    fn call_multi(&mut self, node: usize, arg: u32) -> u32;
    fn mk_call(&mut self, node: usize) -> (u32, Vec<Self::Ts>, Vec<Self::It>);
    fn new_ts(&mut self, ident: u32, t0: u32, t1: u32) -> Self::Ts;
    fn read_ts(&mut self, h: &Self::Ts, f: usize) -> u32;
    fn call_on_ts(&mut self, h: &Self::Ts) -> u32;
    fn call_spec(&mut self, h: &Self::Ts) -> u32;
    fn specify(&mut self, h: &Self::Ts, v: u32);
    fn intern(&mut self, t: usize, v: u32) -> Self::It;
    fn read_it(&mut self, h: &Self::It) -> u32;
    fn call_on_it(&mut self, h: &Self::It) -> u32;
    fn acc(&mut self, v: u32);
    fn untracked(&mut self, c: usize) -> u32;
    fn yield_now(&mut self) {}
    /// called before every op (fault injection point in the real host)
    fn before_op(&mut self, _node: usize, _pc: usize) {}
}

pub struct BodyOut<H: Host> {
    pub ret: u32,
    pub regs: [u32; NREG],
    pub ts: Vec<H::Ts>,
    pub it: Vec<H::It>,
}

pub fn arith(o: AOp, a: u32, b: u32, m: u32) -> u32 {
    let r = match o {
        AOp::Add => a.wrapping_add(b),
        AOp::Sub => a.wrapping_add(m).wrapping_sub(b % m),
        AOp::Mul => a.wrapping_mul(b),
        AOp::Or => a | b,
        AOp::And => a & b,
        AOp::Xor => a ^ b,
        AOp::Min => a.min(b),
        AOp::Max => a.max(b),
    };
    r % m
}

pub fn cmp(c: Cmp, a: u32, k: u32) -> bool {
    match c {
        Cmp::Lt => a < k,
        Cmp::Eq => a == k,
        Cmp::Ne => a != k,
        Cmp::Ge => a >= k,
    }
}

/// Run the body of `node`. `r0` is the initial value of register 0 (argument of Multi nodes),
/// `ts0` / `it0` the key struct of OnTs/Spec resp. OnIt nodes.
pub fn run_body<H: Host>(
    h: &mut H,
    prog: &Program,
    node: usize,
    r0: u32,
    ts0: Option<H::Ts>,
    it0: Option<H::It>,
) -> BodyOut<H> {
    let m = prog.m;
    let mut r = [0u32; NREG];
    r[0] = r0 % m;
    let mut ts: Vec<H::Ts> = ts0.into_iter().collect();
    let mut it: Vec<H::It> = it0.into_iter().collect();
    let ops = &prog.nodes[node].ops;
    let mut pc = 0usize;
    let mut ret: Option<u32> = None;
    while pc < ops.len() {
        h.before_op(node, pc);
        let op = &ops[pc];
        pc += 1;
        match op {
            Op::Const { d, c } => r[*d as usize] = *c % m,
            Op::In { d, i, f } => r[*d as usize] = h.read_in(*i as usize, *f as usize) % m,
            Op::Call { d, n } => r[*d as usize] = h.call(*n as usize) % m,
            Op::CallDyn { d, s, t } => {
                let n = t[(r[*s as usize] as usize) % t.len()];
                r[*d as usize] = h.call(n as usize) % m
            }
            Op::CallMulti { d, n, s } => {
                r[*d as usize] = h.call_multi(*n as usize, r[*s as usize] % m) % m
            }
            Op::Arith { d, a, b, o } => {
                r[*d as usize] = arith(*o, r[*a as usize], r[*b as usize], m)
            }
            Op::IfSkip { s, c, k, n } => {
                if cmp(*c, r[*s as usize], *k) {
                    pc += *n as usize;
                }
            }
            Op::NewTs { i, a, b } => {
                let t = h.new_ts(r[*i as usize], r[*a as usize], r[*b as usize]);
                ts.push(t);
            }
            Op::ReadTs { d, h: hh, f } => {
                if !ts.is_empty() {
                    let t = ts[*hh as usize % ts.len()].clone();
                    r[*d as usize] = h.read_ts(&t, *f as usize) % m;
                }
            }
            Op::MkCall { d, n } => {
                let (v, hs, is) = h.mk_call(*n as usize);
                r[*d as usize] = v % m;
                ts.extend(hs);
                it.extend(is);
            }
            Op::CallOnTs { d, h: hh } => {
                if !ts.is_empty() {
                    let t = ts[*hh as usize % ts.len()].clone();
                    r[*d as usize] = h.call_on_ts(&t) % m;
                }
            }
            Op::CallSpec { d, h: hh } => {
                if !ts.is_empty() {
                    let t = ts[*hh as usize % ts.len()].clone();
                    r[*d as usize] = h.call_spec(&t) % m;
                }
            }
            Op::Specify { h: hh, s } => {
                if !ts.is_empty() {
                    let t = ts[*hh as usize % ts.len()].clone();
                    h.specify(&t, r[*s as usize]);
                }
            }
            Op::Intern { t, s } => {
                let x = h.intern(*t as usize, r[*s as usize]);
                it.push(x);
            }
            Op::ReadIt { d, h: hh } => {
                if !it.is_empty() {
                    let t = it[*hh as usize % it.len()].clone();
                    r[*d as usize] = h.read_it(&t) % m;
                }
            }
            Op::CallOnIt { d, h: hh } => {
                if !it.is_empty() {
                    let t = it[*hh as usize % it.len()].clone();
                    r[*d as usize] = h.call_on_it(&t) % m;
                }
            }
            Op::Acc { s } => h.acc(r[*s as usize]),
            Op::Untracked { d, c } => r[*d as usize] = h.untracked(*c as usize) % m,
            Op::Yield => h.yield_now(),
            Op::Ret { s } => {
                ret = Some(r[*s as usize]);
                break;
            }
            Op::RetIfTop { s } => {
                if r[*s as usize] == m - 1 {
                    ret = Some(m - 1);
                    break;
                }
            }
        }
    }
    BodyOut { ret: ret.unwrap_or(r[0]), regs: r, ts, it }
}
