//! A case = everything that determines one simulated run (the replay file is its JSON form).

use crate::prog::*;
use crate::refi::World;
use serde::{Deserialize, Serialize};
use std::collections::BTreeMap;

#[derive(Clone, Debug, PartialEq, Eq, Serialize, Deserialize, Default)]
pub struct Knobs {
    /// V::hash = value % hash_mod (0 = identity); 1 puts all interned values into one shard
    #[serde(default)]
    pub hash_mod: u32,
    /// initial LRU capacity set before the history (None = declared capacity)
    #[serde(default)]
    pub lru_cap: Option<u8>,
    /// compare with a fresh salsa database on every k-th query (0 = never)
    #[serde(default)]
    pub fresh_every: u32,
}

#[derive(Clone, Debug, PartialEq, Eq, Serialize, Deserialize)]
pub struct Case {
    pub property: String,
    pub engine: String,
    pub class: String,
    pub seed: u64,
    pub knobs: Knobs,
    pub prog: Program,
    pub world: WorldS,
    pub hist: Vec<Step>,
    /// fault plan: panic at the k-th counted user callback
    #[serde(default)]
    pub panic_at: Option<u64>,
    /// classes of callbacks that are counted by the fault plan (bit mask over `Cb`)
    #[serde(default = "all_mask")]
    pub fault_mask: u32,
    /// concurrent scenario (E3) — threads, requests, scheduler parameters, recorded choices
    #[serde(default)]
    pub conc: Option<crate::conc::ConcCase>,
    /// violation classes expected when replayed (filled in when a violation is recorded)
    #[serde(default)]
    pub expect: Vec<String>,
}

fn all_mask() -> u32 {
    u32::MAX
}

#[derive(Clone, Debug, PartialEq, Eq, Serialize, Deserialize)]
pub struct WorldS {
    pub ins: Vec<[u32; 3]>,
    pub cells: Vec<u32>,
}

impl From<&World> for WorldS {
    fn from(w: &World) -> Self {
        WorldS { ins: w.ins.clone(), cells: w.cells.clone() }
    }
}
impl From<&WorldS> for World {
    fn from(w: &WorldS) -> Self {
        World { ins: w.ins.clone(), cells: w.cells.clone() }
    }
}

#[derive(Clone, Debug, PartialEq, Eq, Serialize, Deserialize)]
pub struct Viol {
    /// oracle class, e.g. "value_mismatch"
    pub class: String,
    pub step: usize,
    pub detail: String,
}

#[derive(Clone, Debug, Default)]
pub struct RunOut {
    pub viol: Vec<Viol>,
    pub stats: BTreeMap<&'static str, u64>,
    /// digest of everything observable (events, results) — determinism self-check
    pub digest: u64,
    pub steps: u64,
    pub revisions: u64,
    /// scheduler choices recorded by a concurrent run (written into the replay file)
    pub choices: Vec<u16>,
}

impl RunOut {
    pub fn bump(&mut self, k: &'static str) {
        *self.stats.entry(k).or_insert(0) += 1;
    }
    pub fn add(&mut self, k: &'static str, n: u64) {
        *self.stats.entry(k).or_insert(0) += n;
    }
    pub fn viol(&mut self, class: &str, step: usize, detail: String) {
        self.viol.push(Viol { class: class.to_string(), step, detail });
    }
    pub fn classes(&self) -> Vec<String> {
        let mut c: Vec<String> = self.viol.iter().map(|v| v.class.clone()).collect();
        c.sort();
        c.dedup();
        c
    }
}
