//! Greedy delta-debugging of a failing case while the same violation class persists.

use crate::case::*;
use crate::prog::*;

pub fn fails_same(c: &Case, classes: &[String], run: &dyn Fn(&Case) -> Option<RunOut>) -> bool {
    if !c.prog.valid() {
        return false;
    }
    match run(c) {
        Some(o) => o.viol.iter().any(|v| classes.contains(&v.class)),
        None => false,
    }
}

pub fn shrink(case: &Case, classes: &[String], run: &dyn Fn(&Case) -> Option<RunOut>, budget: usize) -> Case {
    let mut best = case.clone();
    let mut tries = 0usize;
    let mut progress = true;
    while progress && tries < budget {
        progress = false;
        // 1. drop history steps: suffix first, then chunks, then singles
        let mut chunk = (best.hist.len() / 2).max(1);
        while chunk >= 1 && tries < budget {
            let mut i = 0;
            while i < best.hist.len() && tries < budget {
                let mut c = best.clone();
                let end = (i + chunk).min(c.hist.len());
                c.hist.drain(i..end);
                tries += 1;
                if !c.hist.is_empty() && fails_same(&c, classes, run) {
                    best = c;
                    progress = true;
                } else {
                    i += chunk;
                }
            }
            if chunk == 1 {
                break;
            }
            chunk /= 2;
        }
        // 2. drop ops
        for n in 0..best.prog.nodes.len() {
            let mut j = 0;
            while j < best.prog.nodes[n].ops.len() && tries < budget {
                let mut c = best.clone();
                c.prog.nodes[n].ops.remove(j);
                tries += 1;
                if fails_same(&c, classes, run) {
                    best = c;
                    progress = true;
                } else {
                    j += 1;
                }
            }
        }
        // 3. simplify values
        for i in 0..best.hist.len() {
            if tries >= budget {
                break;
            }
            let mut c = best.clone();
            let changed = match &mut c.hist[i] {
                Step::SetIn { v, d, .. } => {
                    let ch = *v != 0 || d.is_some();
                    *v = 0;
                    *d = None;
                    ch
                }
                Step::Query { arg, .. } if *arg != 0 => {
                    *arg = 0;
                    true
                }
                Step::QueryMk { deep, .. } if *deep => {
                    *deep = false;
                    true
                }
                _ => false,
            };
            if changed {
                tries += 1;
                if fails_same(&c, classes, run) {
                    best = c;
                    progress = true;
                }
            }
        }
        // 4. knobs
        if best.knobs.fresh_every != 0 && tries < budget {
            let mut c = best.clone();
            c.knobs.fresh_every = 0;
            tries += 1;
            if fails_same(&c, classes, run) {
                best = c;
                progress = true;
            }
        }
    }
    best
}
