//! Greedy delta-debugging of a failing case while the same violation class persists.

use crate::case::*;
use crate::prog::*;

pub fn fails_same(c: &Case, classes: &[String], run: &dyn Fn(&Case) -> Option<RunOut>) -> bool {
    if !c.prog.valid() {
        return false;
    }
    match run(c) {
        Some(o) => o.viol.iter().any(|v| classes.contains(&v.class)),
        None => false,
    }
}

pub fn shrink(case: &Case, classes: &[String], run: &dyn Fn(&Case) -> Option<RunOut>, budget: usize) -> Case {
    let mut best = case.clone();
    let mut tries = 0usize;
    if best.conc.is_some() {
        best = shrink_conc(best, classes, run, &mut tries, budget);
    }
    let mut progress = true;
    while progress && tries < budget {
        progress = false;
        // 1. drop history steps: suffix first, then chunks, then singles
        let mut chunk = (best.hist.len() / 2).max(1);
        while chunk >= 1 && tries < budget {
            let mut i = 0;
            while i < best.hist.len() && tries < budget {
                let mut c = best.clone();
                let end = (i + chunk).min(c.hist.len());
                c.hist.drain(i..end);
                tries += 1;
                if !c.hist.is_empty() && fails_same(&c, classes, run) {
                    best = c;
                    progress = true;
                } else {
                    i += chunk;
                }
            }
            if chunk == 1 {
                break;
            }
            chunk /= 2;
        }
        // 2. drop ops
        for n in 0..best.prog.nodes.len() {
            let mut j = 0;
            while j < best.prog.nodes[n].ops.len() && tries < budget {
                let mut c = best.clone();
                c.prog.nodes[n].ops.remove(j);
                tries += 1;
                if fails_same(&c, classes, run) {
                    best = c;
                    progress = true;
                } else {
                    j += 1;
                }
            }
        }
        // 3. simplify values
        for i in 0..best.hist.len() {
            if tries >= budget {
                break;
            }
            let mut c = best.clone();
            let changed = match &mut c.hist[i] {
                Step::SetIn { v, d, .. } => {
                    let ch = *v != 0 || d.is_some();
                    *v = 0;
                    *d = None;
                    ch
                }
                Step::Query { arg, .. } if *arg != 0 => {
                    *arg = 0;
                    true
                }
                Step::QueryMk { deep, .. } if *deep => {
                    *deep = false;
                    true
                }
                _ => false,
            };
            if changed {
                tries += 1;
                if fails_same(&c, classes, run) {
                    best = c;
                    progress = true;
                }
            }
        }
        // 4. knobs
        if best.knobs.fresh_every != 0 && tries < budget {
            let mut c = best.clone();
            c.knobs.fresh_every = 0;
            tries += 1;
            if fails_same(&c, classes, run) {
                best = c;
                progress = true;
            }
        }
    }
    best
}

/// Concurrent cases: drop rounds, reader threads, requests, cancels and delays while the same
/// violation class persists (the schedule is re-explored from the case's scheduler seed every
/// time), then look for a failing schedule with fewer context switches.
fn shrink_conc(case: Case, classes: &[String], run: &dyn Fn(&Case) -> Option<RunOut>, tries: &mut usize, budget: usize) -> Case {
    let mut best = case;
    best.conc.as_mut().unwrap().choices.clear();
    let attempt = |best: &mut Case, cand: Case, tries: &mut usize| -> bool {
        if *tries >= budget {
            return false;
        }
        *tries += 1;
        if fails_same(&cand, classes, run) {
            *best = cand;
            true
        } else {
            false
        }
    };
    let mut progress = true;
    while progress && *tries < budget {
        progress = false;
        // rounds: from the end, then anywhere
        let mut i = best.conc.as_ref().unwrap().rounds.len();
        while i > 0 && best.conc.as_ref().unwrap().rounds.len() > 1 {
            i -= 1;
            let mut c = best.clone();
            c.conc.as_mut().unwrap().rounds.remove(i);
            if attempt(&mut best, c, tries) {
                progress = true;
            }
        }
        // reader threads of each round (cancels refer to reader indices)
        for ri in 0..best.conc.as_ref().unwrap().rounds.len() {
            let mut t = 0;
            while t < best.conc.as_ref().unwrap().rounds[ri].readers.len() {
                let mut c = best.clone();
                {
                    let r = &mut c.conc.as_mut().unwrap().rounds[ri];
                    r.readers.remove(t);
                    r.cancels.retain(|(x, _)| *x as usize != t);
                    for (x, _) in r.cancels.iter_mut() {
                        if *x as usize > t {
                            *x -= 1;
                        }
                    }
                }
                if attempt(&mut best, c, tries) {
                    progress = true;
                } else {
                    t += 1;
                }
            }
        }
        // requests
        for ri in 0..best.conc.as_ref().unwrap().rounds.len() {
            for t in 0..best.conc.as_ref().unwrap().rounds[ri].readers.len() {
                let mut q = 0;
                while q < best.conc.as_ref().unwrap().rounds[ri].readers[t].len() {
                    let mut c = best.clone();
                    c.conc.as_mut().unwrap().rounds[ri].readers[t].remove(q);
                    if attempt(&mut best, c, tries) {
                        progress = true;
                    } else {
                        q += 1;
                    }
                }
            }
        }
        // cancels, writer placement, durabilities
        for ri in 0..best.conc.as_ref().unwrap().rounds.len() {
            let mut k = 0;
            while k < best.conc.as_ref().unwrap().rounds[ri].cancels.len() {
                let mut c = best.clone();
                c.conc.as_mut().unwrap().rounds[ri].cancels.remove(k);
                if attempt(&mut best, c, tries) {
                    progress = true;
                } else {
                    k += 1;
                }
            }
            let r = best.conc.as_ref().unwrap().rounds[ri].clone();
            if r.writer_after != 0 {
                let mut c = best.clone();
                c.conc.as_mut().unwrap().rounds[ri].writer_after = 0;
                if attempt(&mut best, c, tries) {
                    progress = true;
                }
            }
            if r.writer_delay != 0 {
                let mut c = best.clone();
                c.conc.as_mut().unwrap().rounds[ri].writer_delay = 0;
                if attempt(&mut best, c, tries) {
                    progress = true;
                }
            }
        }
        let mut k = 0;
        while k < best.conc.as_ref().unwrap().field_durs.len() {
            let mut c = best.clone();
            c.conc.as_mut().unwrap().field_durs.remove(k);
            if attempt(&mut best, c, tries) {
                progress = true;
            } else {
                k += 1;
            }
        }
        if best.conc.as_ref().unwrap().spurious_pct != 0 {
            let mut c = best.clone();
            c.conc.as_mut().unwrap().spurious_pct = 0;
            if attempt(&mut best, c, tries) {
                progress = true;
            }
        }
    }
    // schedule: among a few scheduler seeds / strategies that still fail, keep the one with the
    // fewest context switches
    let switches = |c: &Case| -> Option<u64> {
        if !c.prog.valid() {
            return None;
        }
        let o = run(c)?;
        if o.viol.iter().any(|v| classes.contains(&v.class)) { Some(o.stats.get("context_switches").copied().unwrap_or(u64::MAX)) } else { None }
    };
    if let Some(mut best_sw) = switches(&best) {
        let seed0 = best.conc.as_ref().unwrap().sched_seed;
        for (strategy, stay) in [("rr", 0u32), ("random", 95), ("random", 85)] {
            for d in 0..12u64 {
                if *tries >= budget {
                    break;
                }
                *tries += 1;
                let mut c = best.clone();
                {
                    let cc = c.conc.as_mut().unwrap();
                    cc.strategy = strategy.to_string();
                    cc.stay_pct = stay;
                    cc.sched_seed = seed0.wrapping_add(d);
                }
                if let Some(sw) = switches(&c) {
                    if sw < best_sw {
                        best_sw = sw;
                        best = c;
                    }
                }
            }
        }
    }
    best
}
