//! Salsa items of the simulated workload: a fixed family of tracked functions whose bodies
//! interpret the program table held (untracked, immutable — it plays the role of source code)
//! by the database struct.

use crate::prog::*;
use salsa::plumbing::AsId;
use salsa::{Accumulator, Durability, Setter};
use std::sync::atomic::{AtomicU32, AtomicU64, Ordering::SeqCst};
use std::sync::{Arc, Mutex};

// ---------------------------------------------------------------------------------------------
// Fault plan + callback counter (process global; plain std atomics, never a managed lock).

/// values read back from salsa that carry the allocator's poison pattern (C23)
pub static POISON_READS: AtomicU64 = AtomicU64::new(0);
/// reads of a tracked struct whose two identity fields do not belong together
pub static IDENT2_MISMATCH: AtomicU64 = AtomicU64::new(0);

pub fn ident2_of(ident: u32) -> u32 {
    ident.wrapping_mul(5).wrapping_add(1) % 7
}

/// first identity field of a struct; checks the second one against it
pub fn ts_ident<'db>(db: &'db dyn SimDb, h: &Ts<'db>) -> u32 {
    let a = h.ident(db).0;
    let b = h.ident2(db).0;
    if b != ident2_of(a) {
        IDENT2_MISMATCH.fetch_add(1, SeqCst);
    }
    a
}
const POISON_U32: u32 = 0xDEDE_DEDE;
#[inline]
fn chk(x: u32) -> u32 {
    if x == POISON_U32 {
        POISON_READS.fetch_add(1, SeqCst);
    }
    x
}

pub mod fault {
    use super::*;
    pub static COUNT: AtomicU64 = AtomicU64::new(0);
    pub static PANIC_AT: AtomicU64 = AtomicU64::new(u64::MAX);
    pub static HASH_MOD: AtomicU32 = AtomicU32::new(0);
    pub static FIRED: AtomicU64 = AtomicU64::new(0);
    /// class of each callback seen so far (only recorded when RECORD is on)
    pub static KINDS: Mutex<Vec<Cb>> = Mutex::new(Vec::new());
    /// for Event callbacks: which salsa event (index parallel to KINDS; 255 = not an event)
    pub static EVKINDS: Mutex<Vec<u8>> = Mutex::new(Vec::new());
    pub static CUR_EVENT: AtomicU32 = AtomicU32::new(255);
    pub static RECORD: AtomicU32 = AtomicU32::new(0);
    /// bit mask of callback classes that count (others are invisible to the plan)
    pub static MASK: AtomicU32 = AtomicU32::new(u32::MAX);

    #[derive(Debug)]
    pub struct Injected(pub u64, pub Cb);

    pub fn reset() {
        COUNT.store(0, SeqCst);
        PANIC_AT.store(u64::MAX, SeqCst);
        FIRED.store(0, SeqCst);
        MASK.store(u32::MAX, SeqCst);
        KINDS.lock().unwrap_or_else(|e| e.into_inner()).clear();
        EVKINDS.lock().unwrap_or_else(|e| e.into_inner()).clear();
    }
    pub fn arm(k: u64) {
        PANIC_AT.store(k, SeqCst);
    }
    pub fn disarm() {
        PANIC_AT.store(u64::MAX, SeqCst);
    }
    #[inline]
    pub fn cb(kind: Cb) {
        if MASK.load(SeqCst) & (1 << kind as u32) == 0 {
            return;
        }
        if std::thread::panicking() {
            return;
        }
        let n = COUNT.fetch_add(1, SeqCst);
        if RECORD.load(SeqCst) != 0 {
            KINDS.lock().unwrap_or_else(|e| e.into_inner()).push(kind);
            let ek = if kind == Cb::Event { CUR_EVENT.load(SeqCst) as u8 } else { 255 };
            EVKINDS.lock().unwrap_or_else(|e| e.into_inner()).push(ek);
        }
        if n == PANIC_AT.load(SeqCst) {
            PANIC_AT.store(u64::MAX, SeqCst);
            FIRED.fetch_add(1, SeqCst);
            #[cfg(feature = "e3")]
            salsa::verif::trace_mark("user_panic");
            std::panic::panic_any(Injected(n, kind));
        }
    }
}

// ---------------------------------------------------------------------------------------------
// Value type whose PartialEq / Hash are user code (fault points).

#[derive(Clone, Copy, Debug)]
pub struct V(pub u32);

impl PartialEq for V {
    fn eq(&self, o: &V) -> bool {
        fault::cb(Cb::ValEq);
        self.0 == o.0
    }
}
impl Eq for V {}
impl std::hash::Hash for V {
    fn hash<H: std::hash::Hasher>(&self, s: &mut H) {
        fault::cb(Cb::ValHash);
        let m = fault::HASH_MOD.load(SeqCst);
        // hash_mod = 1 puts every value in one interned shard (reclamation scans one shard only)
        s.write_u32(if m == 0 { self.0 } else { self.0 % m });
    }
}
#[cfg(feature = "persistence")]
impl serde::Serialize for V {
    fn serialize<S: serde::Serializer>(&self, s: S) -> Result<S::Ok, S::Error> {
        s.serialize_u32(self.0)
    }
}
#[cfg(feature = "persistence")]
impl<'de> serde::Deserialize<'de> for V {
    fn deserialize<D: serde::Deserializer<'de>>(d: D) -> Result<Self, D::Error> {
        <u32 as serde::Deserialize>::deserialize(d).map(V)
    }
}

// ---------------------------------------------------------------------------------------------
// Probe / event log

#[derive(Clone, Debug, PartialEq, Eq)]
pub enum Ev {
    /// salsa event: (kind, ingredient index, key id bits, extra)
    Salsa { k: SK, ing: u32, id: u64, x: u64 },
    SalsaPlain(SK),
    /// body of `node` started executing for salsa key id `id`
    Exec { node: usize, id: u64, arg: u32 },
    /// `full` = hash of the complete result (vector of Ref nodes, handle ids of makers)
    ExecEnd { node: usize, id: u64, ret: u32, full: u64 },
    NewTs { creator: u64, ident: u32, id: u64, t0: u32, t1: u32 },
    Intern { t: usize, v: u32, id: u64, in_query: bool },
    // reads performed by the body that is currently executing (innermost Exec)
    RdIn { i: usize, f: usize },
    RdCall { node: usize, arg: u32, ret: u32 },
    RdTs { id: u64, f: usize, v: u32 },
    RdIt { id: u64 },
    RdOnTs { node: usize, id: u64, ret: u32 },
    RdOnIt { node: usize, id: u64, ret: u32 },
    RdUntracked,
    /// the following events were produced by managed thread `tid` (concurrent engines)
    Thread(usize),
}

impl Ev {
    pub fn digest(&self, h: u64) -> u64 {
        use crate::rng::hash64 as hh;
        match self {
            Ev::Salsa { k, ing, id, x } => hh(hh(hh(hh(h, 1 + *k as u64), *ing as u64), *id), *x),
            Ev::SalsaPlain(k) => hh(h, 100 + *k as u64),
            Ev::Exec { node, id, arg } => hh(hh(hh(hh(h, 201), *node as u64), *id), *arg as u64),
            Ev::ExecEnd { node, id, ret, full } => hh(hh(hh(hh(hh(h, 202), *node as u64), *id), *ret as u64), *full),
            Ev::NewTs { creator, ident, id, t0, t1 } => hh(hh(hh(hh(hh(hh(h, 203), *creator), *ident as u64), *id), *t0 as u64), *t1 as u64),
            Ev::Intern { t, v, id, in_query } => hh(hh(hh(hh(hh(h, 204), *t as u64), *v as u64), *id), *in_query as u64),
            Ev::RdIn { i, f } => hh(hh(hh(h, 205), *i as u64), *f as u64),
            Ev::RdCall { node, arg, ret } => hh(hh(hh(hh(h, 206), *node as u64), *arg as u64), *ret as u64),
            Ev::RdTs { id, f, v } => hh(hh(hh(hh(h, 207), *id), *f as u64), *v as u64),
            Ev::RdIt { id } => hh(hh(h, 208), *id),
            Ev::RdOnTs { node, id, ret } => hh(hh(hh(hh(h, 209), *node as u64), *id), *ret as u64),
            Ev::RdOnIt { node, id, ret } => hh(hh(hh(hh(h, 210), *node as u64), *id), *ret as u64),
            Ev::RdUntracked => hh(h, 211),
            Ev::Thread(t) => hh(hh(h, 212), *t as u64),
        }
    }
}

#[derive(Clone, Copy, Debug, PartialEq, Eq, Hash, PartialOrd, Ord)]
pub enum SK {
    DidValidateMemo,
    WillBlockOn,
    WillExecute,
    WillIterateCycle,
    DidFinalizeCycle,
    WillCheckCancellation,
    DidSetCancellationFlag,
    WillDiscardStaleOutput,
    DidDiscard,
    DidDiscardAccumulated,
    DidIntern,
    DidReuseInterned,
    DidValidateInterned,
}

pub struct Shared {
    pub prog: Program,
    /// salsa id (bits) of `Key` -> node
    pub key_node: Mutex<std::collections::HashMap<u64, usize>>,
    pub keys: Mutex<Vec<Key>>,
    pub ins: Mutex<Vec<In>>,
    pub cells: Vec<AtomicU32>,
    pub log: Mutex<Vec<Ev>>,
    pub log_on: AtomicU32,
    pub last_tid: std::sync::atomic::AtomicUsize,
    /// number of body executions completed so far (the writer of a concurrent round can wait for it)
    pub exec_ends: AtomicU32,
}

impl Shared {
    pub fn push(&self, e: Ev) {
        if self.log_on.load(SeqCst) != 0 {
            let mut l = self.log.lock().unwrap_or_else(|e| e.into_inner());
            #[cfg(feature = "e3")]
            {
                let me = shuttle::rt::me().unwrap_or(usize::MAX);
                if self.last_tid.swap(me, SeqCst) != me {
                    l.push(Ev::Thread(me));
                }
            }
            l.push(e);
        }
    }
    pub fn take_log(&self) -> Vec<Ev> {
        std::mem::take(&mut *self.log.lock().unwrap_or_else(|e| e.into_inner()))
    }
    pub fn node_of(&self, id: salsa::Id) -> usize {
        *self.key_node.lock().unwrap_or_else(|e| e.into_inner()).get(&id.as_bits()).expect("Key id maps to a node")
    }
    pub fn key(&self, node: usize) -> Key {
        self.keys.lock().unwrap_or_else(|e| e.into_inner())[node]
    }
    pub fn input(&self, i: usize) -> In {
        self.ins.lock().unwrap_or_else(|e| e.into_inner())[i]
    }
}

#[salsa::db]
pub trait SimDb: salsa::Database {
    fn sh(&self) -> &Shared;
}

#[salsa::db]
#[derive(Clone)]
pub struct SimDatabase {
    storage: salsa::Storage<Self>,
    pub shared: Arc<Shared>,
}

#[salsa::db]
impl salsa::Database for SimDatabase {}

#[salsa::db]
impl SimDb for SimDatabase {
    fn sh(&self) -> &Shared {
        &self.shared
    }
}

fn conv_event(e: &salsa::Event) -> Ev {
    use salsa::EventKind as E;
    let key = |k: SK, d: salsa::DatabaseKeyIndex, x: u64| Ev::Salsa { k, ing: salsa::verif::ingredient_index_as_u32(d.ingredient_index()), id: d.key_index().as_bits(), x };
    match &e.kind {
        E::DidValidateMemoizedValue { database_key } => key(SK::DidValidateMemo, *database_key, 0),
        E::WillBlockOn { database_key, .. } => key(SK::WillBlockOn, *database_key, 0),
        E::WillExecute { database_key } => key(SK::WillExecute, *database_key, 0),
        E::WillIterateCycle { database_key, iteration } => {
            #[cfg(feature = "e3")]
            salsa::verif::trace_mark("iterate");
            key(SK::WillIterateCycle, *database_key, *iteration as u64)
        }
        E::DidFinalizeCycle { database_key, iteration } => key(SK::DidFinalizeCycle, *database_key, *iteration as u64),
        E::WillCheckCancellation => {
            #[cfg(feature = "e3")]
            salsa::verif::trace_mark("check");
            Ev::SalsaPlain(SK::WillCheckCancellation)
        }
        E::DidSetCancellationFlag => Ev::SalsaPlain(SK::DidSetCancellationFlag),
        E::WillDiscardStaleOutput { execute_key: _, output_key } => key(SK::WillDiscardStaleOutput, *output_key, 0),
        E::DidDiscard { key: k } => key(SK::DidDiscard, *k, 0),
        E::DidDiscardAccumulated { executor_key, .. } => key(SK::DidDiscardAccumulated, *executor_key, 0),
        E::DidInternValue { key: k, revision } => key(SK::DidIntern, *k, salsa::verif::revision_as_usize(*revision) as u64),
        E::DidReuseInternedValue { key: k, revision } => key(SK::DidReuseInterned, *k, salsa::verif::revision_as_usize(*revision) as u64),
        E::DidValidateInternedValue { key: k, revision } => key(SK::DidValidateInterned, *k, salsa::verif::revision_as_usize(*revision) as u64),
    }
}

impl SimDatabase {
    pub fn new(prog: &Program, world: &crate::refi::World) -> Self {
        let shared = Arc::new(Shared {
            prog: prog.clone(),
            key_node: Mutex::new(Default::default()),
            keys: Mutex::new(vec![]),
            ins: Mutex::new(vec![]),
            cells: world.cells.iter().map(|c| AtomicU32::new(*c)).collect(),
            log: Mutex::new(vec![]),
            log_on: AtomicU32::new(1),
            last_tid: std::sync::atomic::AtomicUsize::new(usize::MAX - 7),
            exec_ends: AtomicU32::new(0),
        });
        let db = Self::with_shared(shared);
        db.populate(world);
        db
    }

    /// empty database (no inputs created) sharing harness state: the target of a restore
    pub fn with_shared(shared: Arc<Shared>) -> Self {
        let s2 = shared.clone();
        let storage = salsa::Storage::new(Some(Box::new(move |e: salsa::Event| {
            // WillCheckCancellation is emitted on every fetch: not user-visible work, not a fault point
            #[cfg(feature = "e3")]
            if matches!(e.kind, salsa::EventKind::WillCheckCancellation) {
                salsa::verif::trace_mark("check");
            }
            if !matches!(e.kind, salsa::EventKind::WillCheckCancellation) {
                let ev = conv_event(&e);
                if let Ev::Salsa { k, .. } = &ev {
                    fault::CUR_EVENT.store(*k as u32, SeqCst);
                } else {
                    fault::CUR_EVENT.store(254, SeqCst);
                }
                s2.push(ev);
                fault::cb(Cb::Event);
            }
        })));
        SimDatabase { storage, shared }
    }

    /// "crash and restart with only durable state surviving": serialize, then deserialize into a
    /// fresh database of the same type
    #[cfg(feature = "persistence")]
    pub fn snapshot(&mut self) -> String {
        serde_json::to_string(&<dyn salsa::Database>::as_serialize(self)).expect("serialize")
    }
    #[cfg(feature = "persistence")]
    pub fn restore(shared: Arc<Shared>, json: &str) -> Self {
        let mut db = Self::with_shared(shared);
        <dyn salsa::Database>::deserialize(&mut db, &mut serde_json::Deserializer::from_str(json)).expect("deserialize");
        db
    }

    /// create Key and In inputs (fresh database only)
    pub fn populate(&self, world: &crate::refi::World) {
        let sh = &self.shared;
        let mut keys = vec![];
        for n in 0..sh.prog.nodes.len() {
            let k = Key::new(self, n as u32);
            sh.key_node.lock().unwrap().insert(k.as_id().as_bits(), n);
            keys.push(k);
        }
        *sh.keys.lock().unwrap() = keys;
        let mut ins = vec![];
        for i in 0..sh.prog.n_inputs {
            let w = world.ins[i];
            ins.push(In::new(self, w[0], w[1], w[2]));
        }
        *sh.ins.lock().unwrap() = ins;
    }

    pub fn set_in(&mut self, i: usize, f: usize, v: u32, d: Option<Dur>) {
        let inp = self.shared.input(i);
        macro_rules! set {
            ($m:ident) => {{
                match d {
                    None => {
                        inp.$m(self).to(v);
                    }
                    Some(d) => {
                        inp.$m(self).with_durability(dur(d)).to(v);
                    }
                }
            }};
        }
        match f {
            0 => set!(set_f0),
            1 => set!(set_f1),
            _ => set!(set_f2),
        }
    }
}

pub fn dur(d: Dur) -> Durability {
    match d {
        Dur::Low => Durability::LOW,
        Dur::Medium => Durability::MEDIUM,
        Dur::High => Durability::HIGH,
        Dur::Never => Durability::NEVER_CHANGE,
    }
}

// ---------------------------------------------------------------------------------------------
// Salsa structs

#[cfg_attr(feature = "persistence", salsa::input(persist))]
#[cfg_attr(not(feature = "persistence"), salsa::input)]
pub struct Key {
    #[returns(copy)]
    pub n: u32,
}

#[cfg_attr(feature = "persistence", salsa::input(persist))]
#[cfg_attr(not(feature = "persistence"), salsa::input)]
pub struct In {
    #[returns(copy)]
    pub f0: u32,
    #[returns(copy)]
    pub f1: u32,
    #[returns(copy)]
    pub f2: u32,
}

#[cfg_attr(feature = "persistence", salsa::tracked(debug, persist))]
#[cfg_attr(not(feature = "persistence"), salsa::tracked(debug))]
pub struct Ts<'db> {
    #[returns(copy)]
    pub ident: V,
    /// second identity field, a fixed function of the first (`ident2_of`): every read of a
    /// struct checks that the pair it carries is one it can have been created with
    #[returns(copy)]
    pub ident2: V,
    #[tracked]
    #[returns(copy)]
    pub t0: V,
    #[tracked]
    #[no_eq]
    #[returns(copy)]
    pub t1: V,
}

#[cfg_attr(feature = "persistence", salsa::interned(debug, persist, revisions = 1))]
#[cfg_attr(not(feature = "persistence"), salsa::interned(debug, revisions = 1))]
pub struct It1<'db> {
    #[returns(copy)]
    pub v: V,
}
#[cfg_attr(feature = "persistence", salsa::interned(debug, persist, revisions = 2))]
#[cfg_attr(not(feature = "persistence"), salsa::interned(debug, revisions = 2))]
pub struct It2<'db> {
    #[returns(copy)]
    pub v: V,
}
#[cfg_attr(feature = "persistence", salsa::interned(debug, persist, revisions = 3))]
#[cfg_attr(not(feature = "persistence"), salsa::interned(debug, revisions = 3))]
pub struct It3<'db> {
    #[returns(copy)]
    pub v: V,
}
#[cfg_attr(feature = "persistence", salsa::interned(debug, persist, revisions = usize::MAX))]
#[cfg_attr(not(feature = "persistence"), salsa::interned(debug, revisions = usize::MAX))]
pub struct ItInf<'db> {
    #[returns(copy)]
    pub v: V,
}

#[salsa::accumulator]
#[derive(Debug, Clone, Copy, PartialEq, Eq)]
pub struct Acc(pub u32);

#[derive(Clone, Copy, Debug, PartialEq, Eq, Hash, salsa::SalsaValue)]
#[cfg_attr(feature = "persistence", derive(serde::Serialize, serde::Deserialize))]
pub enum ItH<'db> {
    I1(It1<'db>),
    I2(It2<'db>),
    I3(It3<'db>),
    Inf(ItInf<'db>),
}

impl<'db> ItH<'db> {
    pub fn id(&self) -> salsa::Id {
        match self {
            ItH::I1(x) => x.as_id(),
            ItH::I2(x) => x.as_id(),
            ItH::I3(x) => x.as_id(),
            ItH::Inf(x) => x.as_id(),
        }
    }
    pub fn ty(&self) -> usize {
        match self {
            ItH::I1(_) => 0,
            ItH::I2(_) => 1,
            ItH::I3(_) => 2,
            ItH::Inf(_) => 3,
        }
    }
    pub fn v(&self, db: &'db dyn SimDb) -> u32 {
        match self {
            ItH::I1(x) => x.v(db).0,
            ItH::I2(x) => x.v(db).0,
            ItH::I3(x) => x.v(db).0,
            ItH::Inf(x) => x.v(db).0,
        }
    }
}

pub fn intern_any<'db>(db: &'db dyn SimDb, t: usize, v: u32) -> ItH<'db> {
    match t % 4 {
        0 => ItH::I1(It1::new(db, V(v))),
        1 => ItH::I2(It2::new(db, V(v))),
        2 => ItH::I3(It3::new(db, V(v))),
        _ => ItH::Inf(ItInf::new(db, V(v))),
    }
}

/// result of maker nodes: value + the handles in the body's handle list at return
#[derive(Clone, Debug, PartialEq, Eq, salsa::SalsaValue)]
#[cfg_attr(feature = "persistence", derive(serde::Serialize, serde::Deserialize))]
pub struct MkOut<'db> {
    pub v: V,
    pub hs: Vec<Ts<'db>>,
    pub its: Vec<ItH<'db>>,
}

// ---------------------------------------------------------------------------------------------
// The host that runs bodies against salsa

pub struct SalsaHost<'db> {
    pub db: &'db dyn SimDb,
    /// salsa id of the key the body runs for (for probes)
    pub me: u64,
}

fn call_node<'db>(db: &'db dyn SimDb, node: usize) -> u32 {
    let sh = db.sh();
    let k = sh.key(node);
    match sh.prog.nodes[node].kind {
        Kind::Plain => chk(q_plain(db, k).0),
        Kind::NoEq => chk(q_noeq(db, k).0),
        Kind::Lru => chk(q_lru(db, k).0),
        Kind::Multi => chk(q_multi(db, k, 0).0),
        Kind::Zero => chk(q_zero(db).0),
        Kind::Ref => chk(q_ref(db, k)[0]),
        Kind::Mk => chk(q_mk(db, k).v.0),
        Kind::Fix | Kind::FixBad => chk(q_fix(db, k).0),
        Kind::FixJ => chk(q_fixj(db, k).0),
        Kind::Fb => chk(q_fb(db, k).0),
        // keyed by a struct, not callable by node
        Kind::OnTs | Kind::Spec | Kind::OnIt | Kind::POnTs => 0,
        Kind::PPlain | Kind::PMulti | Kind::PMk => 0,
    }
}

impl<'db> Host for SalsaHost<'db> {
    type Ts = Ts<'db>;
    type It = ItH<'db>;

    fn before_op(&mut self, _node: usize, _pc: usize) {
        fault::cb(Cb::BodyOp);
    }
    fn read_in(&mut self, i: usize, f: usize) -> u32 {
        let inp = self.db.sh().input(i);
        self.db.sh().push(Ev::RdIn { i, f });
        match f {
            0 => inp.f0(self.db),
            1 => inp.f1(self.db),
            _ => inp.f2(self.db),
        }
    }
    fn call(&mut self, node: usize) -> u32 {
        let r = call_node(self.db, node);
        self.db.sh().push(Ev::RdCall { node, arg: 0, ret: r });
        r
    }
    fn call_multi(&mut self, node: usize, arg: u32) -> u32 {
        let k = self.db.sh().key(node);
        let (r, a) = match self.db.sh().prog.nodes[node].kind {
            Kind::Multi => (q_multi(self.db, k, arg).0, arg),
            _ => (call_node(self.db, node), 0),
        };
        self.db.sh().push(Ev::RdCall { node, arg: a, ret: r });
        r
    }
    fn mk_call(&mut self, node: usize) -> (u32, Vec<Ts<'db>>, Vec<ItH<'db>>) {
        let k = self.db.sh().key(node);
        let r = match self.db.sh().prog.nodes[node].kind {
            Kind::Mk => {
                let o = q_mk(self.db, k);
                (o.v.0, o.hs.clone(), o.its.clone())
            }
            _ => (call_node(self.db, node), vec![], vec![]),
        };
        self.db.sh().push(Ev::RdCall { node, arg: 0, ret: r.0 });
        r
    }
    fn new_ts(&mut self, ident: u32, t0: u32, t1: u32) -> Ts<'db> {
        let t = Ts::new(self.db, V(ident), V(ident2_of(ident)), V(t0), V(t1));
        self.db.sh().push(Ev::NewTs { creator: self.me, ident, id: t.as_id().as_bits(), t0, t1 });
        t
    }
    fn read_ts(&mut self, h: &Ts<'db>, f: usize) -> u32 {
        let v = chk(match f {
            0 => ts_ident(self.db, h),
            1 => h.t0(self.db).0,
            _ => h.t1(self.db).0,
        });
        self.db.sh().push(Ev::RdTs { id: h.as_id().as_bits(), f, v });
        v
    }
    fn call_on_ts(&mut self, h: &Ts<'db>) -> u32 {
        let Some(n) = self.db.sh().prog.node_of_kind(Kind::OnTs) else { return 0 };
        let r = q_on_ts(self.db, *h).0;
        self.db.sh().push(Ev::RdOnTs { node: n, id: h.as_id().as_bits(), ret: r });
        r
    }
    fn call_spec(&mut self, h: &Ts<'db>) -> u32 {
        let Some(n) = self.db.sh().prog.node_of_kind(Kind::Spec) else { return 0 };
        let r = q_spec(self.db, *h).0;
        self.db.sh().push(Ev::RdOnTs { node: n, id: h.as_id().as_bits(), ret: r });
        r
    }
    fn specify(&mut self, h: &Ts<'db>, v: u32) {
        if self.db.sh().prog.node_of_kind(Kind::Spec).is_none() {
            return;
        }
        q_spec::specify(self.db, *h, V(v % self.db.sh().prog.m));
    }
    fn intern(&mut self, t: usize, v: u32) -> ItH<'db> {
        let h = intern_any(self.db, t, v);
        self.db.sh().push(Ev::Intern { t: t % 4, v, id: h.id().as_bits(), in_query: true });
        h
    }
    fn read_it(&mut self, h: &ItH<'db>) -> u32 {
        self.db.sh().push(Ev::RdIt { id: h.id().as_bits() });
        chk(h.v(self.db))
    }
    fn call_on_it(&mut self, h: &ItH<'db>) -> u32 {
        let Some(n) = self.db.sh().prog.node_of_kind(Kind::OnIt) else { return 0 };
        let r = match *h {
            ItH::I1(x) => q_on_it1(self.db, x).0,
            ItH::I2(x) => q_on_it2(self.db, x).0,
            ItH::I3(x) => q_on_it3(self.db, x).0,
            ItH::Inf(x) => q_on_itinf(self.db, x).0,
        };
        self.db.sh().push(Ev::RdOnIt { node: n, id: h.id().as_bits(), ret: r });
        r
    }
    fn acc(&mut self, v: u32) {
        Acc(v).accumulate(self.db);
    }
    fn untracked(&mut self, c: usize) -> u32 {
        self.db.sh().push(Ev::RdUntracked);
        self.db.report_untracked_read();
        self.db.sh().cells[c].load(SeqCst)
    }
    fn yield_now(&mut self) {
        crate::sched_yield();
    }
}

fn exec<'db>(db: &'db dyn SimDb, node: usize, me: u64, r0: u32, ts0: Option<Ts<'db>>, it0: Option<ItH<'db>>) -> BodyOut<SalsaHost<'db>> {
    let sh = db.sh();
    sh.push(Ev::Exec { node, id: me, arg: r0 });
    #[cfg(feature = "e3")]
    salsa::verif::trace_mark(if matches!(sh.prog.nodes[node].kind, Kind::Fix | Kind::FixJ | Kind::FixBad | Kind::Fb) { "enter:fix" } else { "enter:other" });
    let mut h = SalsaHost { db, me };
    let out = run_body(&mut h, &sh.prog, node, r0, ts0, it0);
    #[cfg(feature = "e3")]
    salsa::verif::trace_mark("exit");
    let mut full = crate::rng::hash64(7, out.ret as u64);
    match sh.prog.nodes[node].kind {
        Kind::Ref => {
            for r in out.regs {
                full = crate::rng::hash64(full, r as u64);
            }
        }
        k if k.is_maker() => {
            for t in &out.ts {
                full = crate::rng::hash64(full, t.as_id().as_bits());
            }
            for t in &out.it {
                full = crate::rng::hash64(full, t.id().as_bits());
            }
        }
        _ => {}
    }
    sh.exec_ends.fetch_add(1, SeqCst);
    sh.push(Ev::ExecEnd { node, id: me, ret: out.ret, full });
    out
}

fn exec_key<'db>(db: &'db dyn SimDb, k: Key, r0: u32) -> BodyOut<SalsaHost<'db>> {
    let node = db.sh().node_of(k.as_id());
    exec(db, node, k.as_id().as_bits(), r0, None, None)
}

// ---------------------------------------------------------------------------------------------
// Tracked functions

#[cfg_attr(feature = "persistence", salsa::tracked(returns(copy), persist))]
#[cfg_attr(not(feature = "persistence"), salsa::tracked(returns(copy)))]
pub fn q_plain(db: &dyn SimDb, k: Key) -> V {
    V(exec_key(db, k, 0).ret)
}

#[salsa::tracked(returns(copy), no_eq)]
pub fn q_noeq(db: &dyn SimDb, k: Key) -> V {
    V(exec_key(db, k, 0).ret)
}

pub fn heap_one(_v: &V) -> usize {
    1
}

#[salsa::tracked(returns(copy), lru = 4, heap_size = heap_one)]
pub fn q_lru(db: &dyn SimDb, k: Key) -> V {
    V(exec_key(db, k, 0).ret)
}

pub fn set_lru_cap(db: &mut SimDatabase, cap: usize) {
    q_lru::set_lru_capacity(db, cap);
}

#[cfg_attr(feature = "persistence", salsa::tracked(returns(copy), persist))]
#[cfg_attr(not(feature = "persistence"), salsa::tracked(returns(copy)))]
pub fn q_multi(db: &dyn SimDb, k: Key, a: u32) -> V {
    V(exec_key(db, k, a).ret)
}

#[cfg_attr(feature = "persistence", salsa::tracked(returns(copy), persist))]
#[cfg_attr(not(feature = "persistence"), salsa::tracked(returns(copy)))]
pub fn q_zero(db: &dyn SimDb) -> V {
    let node = db.sh().prog.node_of_kind(Kind::Zero).expect("program has a Zero node");
    V(exec(db, node, 0, 0, None, None).ret)
}

#[cfg_attr(feature = "persistence", salsa::tracked(persist))]
#[cfg_attr(not(feature = "persistence"), salsa::tracked)]
pub fn q_ref(db: &dyn SimDb, k: Key) -> Vec<u32> {
    let o = exec_key(db, k, 0);
    let mut v = vec![o.ret];
    v.extend_from_slice(&o.regs);
    v
}

#[cfg_attr(feature = "persistence", salsa::tracked(persist))]
#[cfg_attr(not(feature = "persistence"), salsa::tracked)]
pub fn q_mk<'db>(db: &'db dyn SimDb, k: Key) -> MkOut<'db> {
    let o = exec_key(db, k, 0);
    MkOut { v: V(o.ret), hs: o.ts, its: o.it }
}

#[cfg_attr(feature = "persistence", salsa::tracked(returns(copy), persist))]
#[cfg_attr(not(feature = "persistence"), salsa::tracked(returns(copy)))]
pub fn q_on_ts<'db>(db: &'db dyn SimDb, t: Ts<'db>) -> V {
    let node = db.sh().prog.node_of_kind(Kind::OnTs).expect("program has an OnTs node");
    V(exec(db, node, t.as_id().as_bits(), 0, Some(t), None).ret)
}

#[salsa::tracked(returns(copy), specify)]
pub fn q_spec<'db>(db: &'db dyn SimDb, t: Ts<'db>) -> V {
    let node = db.sh().prog.node_of_kind(Kind::Spec).expect("program has a Spec node");
    V(exec(db, node, t.as_id().as_bits(), 0, Some(t), None).ret)
}

fn on_it<'db>(db: &'db dyn SimDb, h: ItH<'db>) -> V {
    let node = db.sh().prog.node_of_kind(Kind::OnIt).expect("program has an OnIt node");
    V(exec(db, node, h.id().as_bits(), 0, None, Some(h)).ret)
}

#[cfg_attr(feature = "persistence", salsa::tracked(returns(copy), persist))]
#[cfg_attr(not(feature = "persistence"), salsa::tracked(returns(copy)))]
pub fn q_on_it1<'db>(db: &'db dyn SimDb, h: It1<'db>) -> V {
    on_it(db, ItH::I1(h))
}
#[cfg_attr(feature = "persistence", salsa::tracked(returns(copy), persist))]
#[cfg_attr(not(feature = "persistence"), salsa::tracked(returns(copy)))]
pub fn q_on_it2<'db>(db: &'db dyn SimDb, h: It2<'db>) -> V {
    on_it(db, ItH::I2(h))
}
#[cfg_attr(feature = "persistence", salsa::tracked(returns(copy), persist))]
#[cfg_attr(not(feature = "persistence"), salsa::tracked(returns(copy)))]
pub fn q_on_it3<'db>(db: &'db dyn SimDb, h: It3<'db>) -> V {
    on_it(db, ItH::I3(h))
}
#[cfg_attr(feature = "persistence", salsa::tracked(returns(copy), persist))]
#[cfg_attr(not(feature = "persistence"), salsa::tracked(returns(copy)))]
pub fn q_on_itinf<'db>(db: &'db dyn SimDb, h: ItInf<'db>) -> V {
    on_it(db, ItH::Inf(h))
}

// --- cycle kinds

fn fix_initial(_db: &dyn SimDb, _id: salsa::Id, _k: Key) -> V {
    fault::cb(Cb::CycleInitial);
    V(0)
}

#[salsa::tracked(returns(copy), cycle_initial = fix_initial)]
pub fn q_fix(db: &dyn SimDb, k: Key) -> V {
    V(exec_key(db, k, 0).ret)
}

fn fixj_recover(_db: &dyn SimDb, _c: &salsa::Cycle, last: &V, value: V, _k: Key) -> V {
    fault::cb(Cb::CycleFn);
    V(last.0 | value.0)
}

#[salsa::tracked(returns(copy), cycle_fn = fixj_recover, cycle_initial = fix_initial)]
pub fn q_fixj(db: &dyn SimDb, k: Key) -> V {
    V(exec_key(db, k, 0).ret)
}

fn fb_result(db: &dyn SimDb, _id: salsa::Id, k: Key) -> V {
    fault::cb(Cb::CycleInitial);
    let sh = db.sh();
    V(sh.prog.fb_base + sh.node_of(k.as_id()) as u32)
}

#[salsa::tracked(returns(copy), cycle_result = fb_result)]
pub fn q_fb(db: &dyn SimDb, k: Key) -> V {
    V(exec_key(db, k, 0).ret)
}

// ---------------------------------------------------------------------------------------------
// Top-level requests (from outside any query)

/// request node `node` through its salsa function; returns the value
pub fn request(db: &dyn SimDb, node: usize, arg: u32) -> u32 {
    let sh = db.sh();
    let k = sh.key(node);
    match sh.prog.nodes[node].kind {
        Kind::Multi => q_multi(db, k, arg % sh.prog.m).0,
        _ => call_node(db, node),
    }
}

/// ids of the tracked structs currently enumerated by the ingredient
pub fn ts_entries(db: &SimDatabase) -> Vec<u64> {
    use salsa::plumbing::ZalsaDatabase;
    Ts::ingredient(db).entries(db.zalsa()).map(|e| e.key().key_index().as_bits()).collect()
}

/// What the memo of a fixpoint function currently records (hook `salsa::verif::memo_summary`),
/// translated into the program's terms.
#[derive(Clone, Debug, Default, PartialEq, Eq)]
pub struct MemoInfo {
    pub node: usize,
    pub has_value: bool,
    pub verified_final: bool,
    pub verified_at: usize,
    /// cycle heads other than the node itself
    pub other_heads: Vec<usize>,
    pub fields: std::collections::BTreeSet<(usize, usize)>,
    pub nodes: std::collections::BTreeSet<usize>,
    pub durability: u8,
}

pub fn memo_info(db: &SimDatabase, node: usize) -> Option<MemoInfo> {
    use salsa::plumbing::AsId;
    let sh = &db.shared;
    let name = match sh.prog.nodes[node].kind {
        Kind::Fix | Kind::FixBad => "q_fix",
        Kind::FixJ => "q_fixj",
        _ => return None,
    };
    let s = salsa::verif::memo_summary(db, name, sh.key(node).as_id())?;
    let keys: Vec<String> = sh.keys.lock().unwrap_or_else(|e| e.into_inner()).iter().map(|k| format!("({:?})", k.as_id())).collect();
    let ins: Vec<String> = sh.ins.lock().unwrap_or_else(|e| e.into_inner()).iter().map(|k| format!("({:?})", k.as_id())).collect();
    let node_of = |txt: &str| keys.iter().position(|k| txt.ends_with(k.as_str()));
    let mut info = MemoInfo { node, has_value: s.has_value, verified_final: s.verified_final, verified_at: s.verified_at, durability: s.durability, ..Default::default() };
    for h in &s.cycle_heads {
        if let Some(x) = node_of(h) {
            if x != node {
                info.other_heads.push(x);
            }
        }
    }
    for e in &s.inputs {
        if let Some(rest) = e.strip_prefix("In.f") {
            let f = rest.chars().next().and_then(|c| c.to_digit(10)).unwrap_or(9) as usize;
            if let Some(i) = ins.iter().position(|k| e.ends_with(k.as_str())) {
                info.fields.insert((i, f));
            }
        } else if e.starts_with("q_") {
            if let Some(x) = node_of(e) {
                info.nodes.insert(x);
            }
        }
    }
    Some(info)
}

/// number of q_lru memos that currently hold a value (heap_size is declared as 1 per value)
pub fn lru_cached_count(db: &SimDatabase) -> usize {
    let mu = <dyn salsa::Database>::memory_usage(db);
    mu.queries.get("q_lru").and_then(|i| i.heap_size_of_fields()).unwrap_or(0)
}

/// Touch every salsa item of this crate once (single thread): ingredient caches and other
/// process-global lazily initialised state are then in place before any measured run.
pub fn warm_up_all_items() {
    use crate::refi::World;
    let ops_all = vec![
        Op::In { d: 0, i: 0, f: 0 },
        Op::Intern { t: 0, s: 0 },
        Op::Intern { t: 1, s: 0 },
        Op::Intern { t: 2, s: 0 },
        Op::Intern { t: 3, s: 0 },
        Op::ReadIt { d: 1, h: 0 },
        Op::CallOnIt { d: 1, h: 0 },
        Op::CallOnIt { d: 1, h: 1 },
        Op::CallOnIt { d: 1, h: 2 },
        Op::CallOnIt { d: 1, h: 3 },
        Op::NewTs { i: 0, a: 0, b: 0 },
        Op::ReadTs { d: 1, h: 0, f: 1 },
        Op::CallOnTs { d: 1, h: 0 },
        Op::CallSpec { d: 1, h: 0 },
        Op::Acc { s: 0 },
        Op::Untracked { d: 2, c: 0 },
    ];
    let kinds = [Kind::OnTs, Kind::Spec, Kind::OnIt, Kind::Zero, Kind::Plain, Kind::NoEq, Kind::Lru, Kind::Multi, Kind::Ref, Kind::Mk];
    let mut nodes: Vec<Node> = kinds.iter().map(|k| Node { kind: *k, ops: vec![Op::In { d: 0, i: 0, f: 1 }] }).collect();
    nodes[9].ops = ops_all;
    nodes.push(Node { kind: Kind::Plain, ops: (0..10).map(|n| Op::Call { d: 0, n }).chain([Op::CallMulti { d: 0, n: 7, s: 0 }, Op::MkCall { d: 0, n: 9 }]).collect() });
    let prog = Program { m: 4, n_inputs: 1, n_cells: 1, nodes, fb_base: 0, blk_lo: 0, blk_hi: 0, bad_guard: None };
    let world = World { ins: vec![[1, 2, 3]], cells: vec![1] };
    let mut db = SimDatabase::new(&prog, &world);
    db.shared.log_on.store(0, SeqCst);
    for n in 3..prog.nodes.len() {
        let _ = std::panic::catch_unwind(std::panic::AssertUnwindSafe(|| request(&db, n, 0)));
    }
    let k = db.shared.key(10);
    let _ = std::panic::catch_unwind(std::panic::AssertUnwindSafe(|| q_plain::accumulated::<Acc>(&db, k).len()));
    db.set_in(0, 0, 2, Some(Dur::High));
    set_lru_cap(&mut db, 2);
    salsa::Database::trigger_lru_eviction(&mut db);
    let d2 = db.clone();
    let _ = std::panic::catch_unwind(std::panic::AssertUnwindSafe(|| request(&d2, 10, 0)));
    drop(d2);
    salsa::Database::synthetic_write(&mut db, Durability::LOW);
    let _ = std::panic::catch_unwind(std::panic::AssertUnwindSafe(|| request(&db, 10, 0)));
    drop(db);
    // cycle kinds
    let cyc = Program {
        m: 16,
        n_inputs: 1,
        n_cells: 0,
        nodes: vec![
            Node { kind: Kind::Fix, ops: vec![Op::Call { d: 0, n: 1 }, Op::In { d: 1, i: 0, f: 0 }, Op::Arith { d: 0, a: 0, b: 1, o: AOp::Or }] },
            Node { kind: Kind::FixJ, ops: vec![Op::Call { d: 0, n: 0 }] },
            Node { kind: Kind::Fb, ops: vec![Op::Call { d: 0, n: 3 }] },
            Node { kind: Kind::Fb, ops: vec![Op::Call { d: 0, n: 2 }] },
        ],
        fb_base: 100,
        blk_lo: 0,
        blk_hi: 4,
        bad_guard: None,
    };
    let db = SimDatabase::new(&cyc, &world);
    db.shared.log_on.store(0, SeqCst);
    for n in 0..4 {
        let _ = std::panic::catch_unwind(std::panic::AssertUnwindSafe(|| request(&db, n, 0)));
    }
    drop(db);
}
