#!/bin/bash
# Determinism self-test: every seed of a sample is executed in separate processes, at two
# different splits of the seed range (1 process vs 4 processes), and the per-seed digests
# (hash of every event, probe, result and scheduler choice) are compared.
# usage: tools/determinism.sh [N]      exit 0 = identical, 1 = mismatch
set -u
N=${1:-1500}
T=/verif/target/determinism; rm -rf $T; mkdir -p $T
fail=0
# recorded findings must not stop a worker early (same list for every process)
KNOWN=$(grep '^finding:' /verif/known-findings.txt | sed 's/.*signature=[^|]*|\([^ ]*\) .*/\1/' | tr '+' '\n' | sort -u | paste -sd,)
run() { # engine prop
  local bin=/verif/target/$1/release/sim p=$2
  $bin run --prop $p --from 0 --to $N --out $T/$1-$p-a --selfcheck 0 --known $KNOWN --digests $T/$1-$p-a.txt >/dev/null 2>&1
  local q=$((N/4))
  for i in 0 1 2 3; do
    $bin run --prop $p --from $((i*q)) --to $(((i+1)*q)) --out $T/$1-$p-b$i --selfcheck 0 --known $KNOWN --digests $T/$1-$p-b$i.txt >/dev/null 2>&1 &
  done; wait
  cat $T/$1-$p-b0.txt $T/$1-$p-b1.txt $T/$1-$p-b2.txt $T/$1-$p-b3.txt > $T/$1-$p-b.txt
  if cmp -s $T/$1-$p-a.txt $T/$1-$p-b.txt; then echo "$1 $p: $(wc -l < $T/$1-$p-a.txt) digests identical across processes and splits"; else echo "$1 $p: MISMATCH"; diff $T/$1-$p-a.txt $T/$1-$p-b.txt | head -5; fail=1; fi
}
for p in C01 C05 C07 C09 C12 C13 C15 C22 C23; do run e1 $p; done
run e1p C26
for p in C08 C14 C16 C17 C18 C19 C20 C21 C22 C23 C24; do run e3 $p; done
exit $fail
