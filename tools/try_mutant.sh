#!/bin/bash
# usage: tools/try_mutant.sh <patch.diff> <prop> [<prop>...]   (applies to /repo, runs quick checks, reverts)
set -u
patch=$(realpath "$1"); shift
cd /repo || exit 2
if ! git diff --quiet; then echo "/repo dirty"; exit 2; fi
git apply "$patch" || { echo "patch does not apply"; exit 2; }
trap 'git -C /repo checkout -- . ; git -C /repo status --short' EXIT
cd /verif
for p in "$@"; do
  python3 vcheck.py $p --tier ${TIER:-quick} 2>&1 | grep -E "VIOLATION|KNOWN-FINDING|HARNESS|^C[0-9]+ " | head -8
  echo "  rc=${PIPESTATUS[0]}"
done
