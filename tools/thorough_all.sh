#!/bin/bash
# runs the thorough tier of every claimed property on the current /repo tree, one after the other;
# keeps a copy of each evidence file under evidence-thorough/ and a one-line summary in target/thorough.log
cd /verif || exit 2
mkdir -p evidence-thorough
for p in ${@:-$(python3 -c "import json;print(' '.join(c['property_id'] for c in json.load(open('MANIFEST.json'))['checks']))")}; do
  python3 vcheck.py $p --tier thorough > target/thorough_$p.log 2>&1
  rc=$?
  cp evidence/$p.json evidence-thorough/$p.json 2>/dev/null
  echo "$p rc=$rc $(grep -c '^VIOLATION' target/thorough_$p.log) viol $(grep -c '^KNOWN-FINDING' target/thorough_$p.log) known :: $(tail -1 target/thorough_$p.log | cut -c1-170)" >> target/thorough.log
done
echo DONE >> target/thorough.log
