#!/bin/bash
# usage: tools/all_mutants.sh [ids...]  — runs, for every stored seeded change, the checks recorded as catching it
# (quick tier unless TIER=thorough) and prints one line per change. /repo is reverted after each one.
cd /verif || exit 2
ids=${@:-$(ls seeded | grep "^C")}
for id in $ids; do
  props=$(python3 -c "import json;print(' '.join(json.load(open('seeded/$id/meta.json'))['checks_that_catch_it'][:1]))")
  out=$(tools/try_mutant.sh /verif/seeded/$id/patch.diff $props 2>&1)
  n=$(echo "$out" | grep -c "^VIOLATION")
  echo "$id by [$props]: violations_printed=$n $(echo "$out" | grep -E "^C[0-9]+ (quick|thorough)" | sed 's/.*wall/wall/' | tr '\n' ' ')"
done
