#!/bin/bash
# usage: confirm_mutant.sh <ID>   -- re-verifies a seeded defect in its scratch worktree /tmp/wt/<ID>
# (patch applied there by the sub-agent). Writes /tmp/mut/<ID>/confirm.log and confirm.json
id=$1; wt=/tmp/wt/$id; out=/tmp/mut/$id; FEATS=${FEATS:-}
cd $wt || exit 2
export CARGO_NET_OFFLINE=true
demo=tests/verif_demo_$id.rs
[ -f $demo ] || cp $out/demo.rs $demo
{
echo "== state"; git status --short | head
# make sure patch is applied
git diff --quiet -- src components && git apply $out/patch.diff
echo "== demo with change (expect FAIL)"
cargo test --offline $FEATS --test verif_demo_$id -- --test-threads=1 2>&1 | tail -5; d1=${PIPESTATUS[0]}
echo "== suite with change, demo moved away (expect PASS)"
mv $demo /tmp/mut/$id/_demo_aside.rs
cargo test --workspace --offline --no-fail-fast 2>&1 | grep -E "^test result|FAILED|failed" | sort | uniq -c | sort -rn | head -8; s1=${PIPESTATUS[0]}
mv /tmp/mut/$id/_demo_aside.rs $demo
echo "== demo without change (expect PASS)"
git apply -R $out/patch.diff
cargo test --offline $FEATS --test verif_demo_$id -- --test-threads=1 2>&1 | tail -5; d0=${PIPESTATUS[0]}
git apply $out/patch.diff
echo "RESULT demo_with=$d1 suite_with=$s1 demo_without=$d0"
echo "{\"demo_with_change_rc\": $d1, \"suite_with_change_rc\": $s1, \"demo_without_change_rc\": $d0}" > $out/confirm.json
} > $out/confirm.log 2>&1
